"""C10 — names with spaces and symbols resolve to their bound value (longest match).

Oracle: R-FEEL on the same expression with every intended name occurrence taken as one identifier
(the reference never sees the spelling; it evaluates the generator's tree whose name nodes carry the
canonical name). The scope is built programmatically from (name parts, value) pairs.
"""
import json
from decimal import Decimal

import rfeel
import runner
from common import chunks, crash_signature, panic_signature, rng_for, warm

LEVEL = "exploration"

WORDS = ["Order", "Size", "Full", "Name", "Monthly", "Salary", "zażółć", "Größe", "ab", "cd", "x1", "Wert", "總", "total", "net", "Rate"]
SYMBOLS = [".", "/", "-", "'", "+", "*"]


def canon(parts):
    """Name::new: words separated by one blank, no blanks around the additional symbols"""
    out = ""
    prev_sym = False
    for k, p in enumerate(parts):
        cur = p in SYMBOLS
        if k > 0 and not prev_sym and not cur:
            out += " "
        out += p
        prev_sym = cur
    return out


def spell(parts, rng):
    """one written form of the name: 1-3 blanks between words, optional blanks around symbols"""
    out = ""
    for k, p in enumerate(parts):
        if k > 0:
            if p in SYMBOLS or parts[k - 1] in SYMBOLS:
                out += rng.choice(["", "", " ", "  "])
            else:
                out += rng.choice([" ", " ", "  ", "\t", " \n "])
        out += p
    return out


def make_name(rng, nwords=None, sym_p=0.4):
    n = nwords or rng.choice([1, 2, 2, 3, 4])
    parts = []
    for k in range(n):
        if k > 0 and rng.random() < sym_p:
            parts.append(rng.choice(SYMBOLS))
        parts.append(rng.choice(WORDS))
    return parts


class NameSet:
    """bound names with their parts, canonical text and value"""

    def __init__(self):
        self.names = {}  # canonical -> (parts, value)

    def add(self, parts, value):
        c = canon(parts)
        if c in self.names:
            return None
        self.names[c] = (parts, value)
        return c

    def scope_json(self):
        return [[[parts, rfeel.to_json(v)] for parts, v in self.names.values()]]

    def env(self):
        return [{c: v for c, (parts, v) in self.names.items()}]


def families(rng):
    """yields (family name, NameSet, roles) ; roles: n1, n2 numbers, lst list, ctx context, fn function, s string"""
    fams = []

    def base(ns, roles):
        # make sure every role is bound
        roles.setdefault("sym", None)
        for role, val in (("n1", Decimal(7)), ("n2", Decimal("2.5")), ("lst", [Decimal(1), Decimal(5), Decimal(9)]), ("ctx", {"entry": Decimal(3), "other": "o"}), ("s", "text")):
            if role not in roles:
                for _ in range(20):
                    parts = make_name(rng)
                    c = ns.add(parts, val)
                    if c and _clashes(ns, c):
                        del ns.names[c]
                        continue
                    if c:
                        roles[role] = c
                        break
        if "fn" not in roles:
            for _ in range(20):
                parts = make_name(rng)
                c = ns.add(parts, rfeel.Fn(["p", "q"], ("sub", ("name", "p"), ("name", "q")), []))
                if c and _clashes(ns, c):
                    del ns.names[c]
                    continue
                if c:
                    roles["fn"] = c
                    break
        return ns, roles

    # random sets
    for _ in range(3):
        fams.append(("random",) + base(NameSet(), {}))
    # prefix family: X and X Y both bound
    ns = NameSet()
    w1, w2 = rng.sample(WORDS, 2)
    a = ns.add([w1], Decimal(100))
    b = ns.add([w1, w2], Decimal(7))
    fams.append(("prefix",) + base(ns, {"n1": b, "n2": a}))
    ns = NameSet()
    w1, w2, w3 = rng.sample(WORDS, 3)
    a = ns.add([w1, w2], Decimal(100))
    b = ns.add([w1, w2, w3], Decimal(7))
    fams.append(("prefix-2-3",) + base(ns, {"n1": b, "n2": a}))
    # operator-joined: a, b and a-b (a+b, a*b, a/b) all bound
    for sym in ("-", "+", "*", "/"):
        ns = NameSet()
        w1, w2 = rng.sample(WORDS, 2)
        a = ns.add([w1], Decimal(20))
        b = ns.add([w2], Decimal(4))
        ab = ns.add([w1, sym, w2], Decimal(1000))
        fams.append(("all-bound:" + sym,) + base(ns, {"n1": ab, "n2": a, "n3": b, "sym": sym}))
    # a+b bound but b not
    for sym in ("-", "+", "*", "/", ".", "'"):
        ns = NameSet()
        w1, w2 = rng.sample(WORDS, 2)
        a = ns.add([w1], Decimal(20))
        ab = ns.add([w1, sym, w2], Decimal(1000))
        fams.append(("joined-second-unbound:" + sym,) + base(ns, {"n1": ab, "n2": a}))
    # a bound name whose first word is `item` (the implicit variable of filters is only a name when nothing longer is bound)
    ns = NameSet()
    w1 = rng.choice(WORDS)
    a = ns.add(["item", w1], Decimal(7))
    b = ns.add(["item", rng.choice(["-", "/", "."]), w1], Decimal("2.5"))
    fams.append(("item-prefix",) + base(ns, {"n1": a, "n2": b}))
    # two (three) bound names made of the same characters with the word breaks in other places: `w1 w2` / `w1w2`, `a b c` / `ab c` / `a bc`
    ns = NameSet()
    w1, w2 = rng.sample(WORDS, 2)
    a, b = ns.add([w1, w2], Decimal(7)), ns.add([w1 + w2], Decimal("2.5"))
    if rng.random() < 0.5:
        a, b = b, a
    if a and b:
        fams.append(("same-letters-other-breaks",) + base(ns, {"n1": a, "n2": b}))
    ns = NameSet()
    w1, w2, w3 = rng.sample(WORDS, 3)
    a, b, c3 = ns.add([w1, w2, w3], Decimal(7)), ns.add([w1 + w2, w3], Decimal("2.5")), ns.add([w1, w2 + w3], Decimal(20))
    if a and b and c3:
        fams.append(("same-letters-other-breaks",) + base(ns, {"n1": rng.choice([a, c3]), "n2": b, "n3": c3 if rng.random() < 0.5 else a}))
    # two bound names that differ in letter case only (single words and inside a two-word name)
    ns = NameSet()
    w1 = rng.choice([w for w in WORDS if w.lower() != w.upper()])
    v1 = w1.lower() if w1.lower() != w1 else w1.upper()
    a, b = ns.add([w1], Decimal(7)), ns.add([v1], Decimal("2.5"))
    if rng.random() < 0.5:
        a, b = b, a
    fams.append(("case-variants",) + base(ns, {"n1": a, "n2": b}))
    ns = NameSet()
    w1, w2 = rng.sample([w for w in WORDS if w.lower() != w.upper()], 2)
    v2 = w2.lower() if w2.lower() != w2 else w2.upper()
    b, a = ns.add([w1, v2], Decimal("2.5")), ns.add([w1, w2], Decimal(7))
    fams.append(("case-variants:second-word",) + base(ns, {"n1": a, "n2": b}))
    # symbol names with three words
    ns = NameSet()
    w = rng.sample(WORDS, 3)
    abc = ns.add([w[0], rng.choice(SYMBOLS), w[1], rng.choice(SYMBOLS), w[2]], Decimal(11))
    fams.append(("three-word-symbols",) + base(ns, {"n1": abc}))
    return fams


def _clashes(ns, c):
    """true when the freshly added name c makes some `x <joiner> y` of two bound names (or of a bound name and a
    word of another) read as a third bound name by accident: such sets are only built on purpose"""
    names = {k: v[0] for k, v in ns.names.items()}
    for x, px in names.items():
        for y, py in names.items():
            for j in SYMBOLS + [None]:
                joined = canon(px + ([j] if j else []) + py)
                if joined in names and (x == c or y == c or joined == c):
                    return True
    # a name that starts with another bound name followed by a word or symbol is the prefix family's business
    for x in names:
        if x != c and (c.startswith(x) and len(c) > len(x) and not c[len(x)].isalnum() or x.startswith(c) and len(x) > len(c) and not x[len(c)].isalnum()):
            return True
    return False


def _clash_text(x, env):
    """x (a fresh canonical name) would read as, or be read into, one of the bound names"""
    for n in env:
        if n.startswith(x) or x.startswith(n + " ") or any(x.startswith(n + sym) for sym in SYMBOLS) or any(w == n for w in x.replace("-", " ").replace("+", " ").replace("*", " ").replace("/", " ").replace(".", " ").replace("'", " ").split()):
            return True
    return False


def templates(roles, rng):
    """list of (position name, tree) using name nodes with canonical names"""
    N1, N2 = ("name", roles["n1"]), ("name", roles["n2"])
    L, C, F, S = ("name", roles["lst"]), ("name", roles["ctx"]), ("name", roles["fn"]), ("name", roles["s"])
    num = lambda t: ("num", t)
    v1, v2 = "my var", "k2 val"
    out = [
        ("operand:+", ("add", N1, N2)), ("operand:-", ("sub", N1, N2)), ("operand:*", ("mul", N1, N2)), ("operand:/", ("div", N1, N2)), ("operand:neg", ("neg", N1)),
        ("operand:**", ("exp", N1, num("2"))), ("operand:chain", ("sub", ("add", N1, N2), N1)),
        ("cmp:<", ("cmp", "<", N1, N2)), ("cmp:=", ("cmp", "=", N1, N1)), ("between", ("between", N1, N2, ("add", N1, num("10")))),
        ("in:range", ("in", N1, ("range", N2, True, N1, True))), ("in:tests", ("in_ut", N1, [("ut_val", N2), ("ut_cmp", ">", num("5"))])),
        ("if", ("if", ("cmp", ">", N1, N2), N1, N2)),
        ("for:domain", ("for", [("x", ("dom_list", L))], ("add", ("name", "x"), N1))), ("for:list", ("for", [("x", ("dom_list", ("list", [N1, N2])))], ("mul", ("name", "x"), num("2")))),
        ("for:multiword-variable", ("for", [(v1, ("dom_list", L))], ("add", ("name", v1), N2))),
        ("for:range", ("for", [("x", ("dom_range", num("1"), num("3")))], ("add", ("name", "x"), N1))),
        ("some", ("some", [("x", L)], ("cmp", ">", ("name", "x"), N1))), ("every:multiword-variable", ("every", [(v2, L)], ("cmp", "!=", ("name", v2), N2))),
        ("filter:pred", ("filter", L, ("cmp", ">", ("name", "item"), N2), "pred")), ("filter:index", ("filter", L, num("1"), "index")),
        ("context:value", ("ctx", [("k", N1), ("m", ("add", N2, ("name", "k")))])),
        ("context:multiword-key", ("path", ("ctx", [("Multi Key", N1), ("other", ("add", ("name", "Multi Key"), num("1")))]), "other")),
        ("path:head", ("add", ("path", C, "entry"), N1)),
        ("call:positional", ("call", F, [N1, N2])), ("call:named", ("callnamed", F, [("p", N1), ("q", N2)])),
        ("function:multiword-parameters", ("call", ("fundef", ["first arg", "second arg"], ("sub", ("name", "first arg"), ("name", "second arg"))), [N1, N2])),
        ("list", ("list", [N1, N2, ("add", N1, N2)])), ("string", ("add", S, ("str", "x"))),
        ("nested", ("if", ("in", N1, ("range", num("0"), True, N2, True)), ("list", [("call", F, [N1, num("1")]), ("path", C, "entry")]), ("null",))),
        ("nested:2", ("for", [("x", ("dom_list", ("filter", L, ("cmp", "<", ("name", "item"), N1), "pred")))], ("ctx", [("k", ("add", ("name", "x"), N2)), ("m", ("call", F, [("name", "k"), N1]))]))),
    ]
    # introduced names that EXTEND a bound name by a word or by a symbol and a word (the declaration must not be cut at the bound prefix)
    e1, e2 = roles["n2"] + " zq", roles["n2"] + "-zq"
    out += [
        ("for:variable-extends-bound-name", ("for", [(e1, ("dom_list", L))], ("add", ("name", e1), N2))),
        ("for:variable-extends-bound-name:symbol", ("for", [(e2, ("dom_list", L))], ("add", ("name", e2), N1))),
        ("for:second-variable-extends-first", ("for", [("vv", ("dom_list", L)), ("vv ww", ("dom_list", ("list", [num("1"), num("2")])))], ("add", ("name", "vv"), ("name", "vv ww")))),
        ("some:variable-extends-bound-name", ("some", [(e1, L)], ("cmp", ">", ("name", e1), N2))),
        ("every:variable-extends-bound-name", ("every", [(e2, L)], ("cmp", "!=", ("name", e2), N2))),
        ("context:key-extends-bound-name", ("path", ("ctx", [(e1, N1), ("other", ("add", ("name", e1), N2))]), "other")),
        ("context:key-extends-earlier-key", ("path", ("ctx", [("kk", N1), ("kk mm", N2), ("other", ("sub", ("name", "kk mm"), ("name", "kk")))]), "other")),
        ("function:parameter-extends-bound-name", ("call", ("fundef", [e1, "qq"], ("sub", ("name", e1), ("name", "qq"))), [N1, N2])),
        ("function:parameter-extends-earlier-parameter", ("call", ("fundef", ["pp", "pp rr"], ("sub", ("name", "pp"), ("name", "pp rr"))), [N1, N2])),
    ]
    # an introduced name that SHADOWS a bound name (same spelling) ends with its construct: the bound value is visible again
    # right after it, whatever way the construct was left (a quantifier decided early, a filter, an invocation)
    sh = roles["n2"]
    SH = ("name", sh)
    out += [
        ("after-some-true:variable-shadows-bound-name", ("list", [("some", [(sh, L)], ("cmp", ">", SH, num("0"))), N2, ("add", N2, N1)])),
        ("after-some-false:variable-shadows-bound-name", ("list", [("some", [(sh, L)], ("cmp", ">", SH, num("100000"))), N2])),
        ("after-every-false:variable-shadows-bound-name", ("list", [("every", [(sh, L)], ("cmp", ">", SH, num("4"))), N2, ("add", N2, N1)])),
        ("after-every-true:variable-shadows-bound-name", ("list", [("every", [(sh, L)], ("cmp", ">", SH, num("0"))), N2])),
        ("after-for:variable-shadows-bound-name", ("list", [("for", [(sh, ("dom_list", L))], ("add", SH, num("1"))), N2])),
        ("after-function:parameter-shadows-bound-name", ("list", [("call", ("fundef", [sh], ("add", SH, num("1"))), [num("5")]), N2])),
        ("after-context:key-shadows-bound-name", ("list", [("path", ("ctx", [(sh, num("1")), ("other", ("add", SH, num("1")))]), "other"), N2])),
        ("after-context:single-key-shadows-bound-name", ("list", [("path", ("ctx", [(sh, num("1"))]), sh), N2, ("add", N2, N1)])),
        ("after-context:single-key-shadows-bound-name:in-for", ("list", [("for", [("x", ("dom_list", L))], ("path", ("ctx", [(sh, ("name", "x"))]), sh)), N2])),
        ("after-filter:context-element-key-shadows-bound-name", ("list", [("filter", ("list", [("ctx", [(sh, num("1"))]), ("ctx", [(sh, num("2"))]), ("ctx", [(sh, num("3"))])]), ("cmp", ">", SH, num("1")), "pred"), N2])),
        ("after-nested-quantifiers:variables-shadow-bound-names", ("list", [("some", [(sh, L)], ("every", [(roles["n1"], L)], ("cmp", ">=", ("add", SH, N1), num("2")))), N2, N1])),
    ]
    if "n3" in roles:
        for op, sym in (("sub", "-"), ("add", "+"), ("mul", "*"), ("div", "/")):
            if roles.get("sym") == sym:
                continue
            joined = "%s%s%s" % (roles["n2"], sym, roles["n3"])
            J = ("name", joined)
            out.append(("after-some-true:variable-joins-bound-names:" + op, ("list", [("some", [(joined, L)], ("cmp", ">", J, num("0"))), (op, N2, ("name", roles["n3"]))])))
            out.append(("after-context:single-key-joins-bound-names:" + op, ("list", [("ctx", [(joined, num("0"))]), (op, N2, ("name", roles["n3"]))])))
            out.append(("after-every-false:variable-joins-bound-names:" + op, ("list", [("every", [(joined, L)], ("cmp", ">", J, num("4"))), (op, N2, ("name", roles["n3"]))])))
    # formal parameters of an EXTERNAL function definition (a body the evaluator does not run) must not stay bound after it:
    # the joined spelling of two bound names is a parameter there, and arithmetic again afterwards
    for op, sym in (("sub", "-"), ("add", "+"), ("mul", "*"), ("div", "/")):
        if roles.get("sym") == sym or "n3" not in roles:
            continue  # (where the joined name is itself bound, it is the longest match anyway)
        joined = "%s%s%s" % (roles["n2"], sym, roles["n3"])
        out.append(("external-function:parameter-joins-bound-names:" + op, ("after_external", [joined, "zq zr"], (op, N2, ("name", roles["n3"])))))
    out.append(("external-function:multiword-parameter", ("after_external", ["zq zr", "zs"], ("add", N1, N2))))
    if "n3" in roles:
        N3 = ("name", roles["n3"])
        # with a, b and a<sym>b all bound, `a <sym> b` IS the bound name (longest match); the other operators are arithmetic
        for op, sym in (("add", "+"), ("sub", "-"), ("mul", "*"), ("div", "/")):
            if roles.get("sym") != sym:
                out.append(("operand:second-%s-third" % op, (op, N2, N3)))
    return out


def render_spelled(tree, spellings, rng):
    """renders the tree with every bound-name occurrence written in a random spelling"""

    def sub(e):
        if isinstance(e, tuple):
            if e and e[0] == "name" and e[1] in spellings:
                return ("name", spell(spellings[e[1]], rng))
            return tuple(sub(x) for x in e)
        if isinstance(e, list):
            return [sub(x) for x in e]
        return e

    return rfeel.render(sub(tree))


def run(rep, tier, seed):
    n_rounds = 250 if tier == "quick" else 8000
    rep.rule = (
        "%d rounds x 20 name-set families (names made of the same characters with the word breaks in other places; random 1-4 word names with and without the symbols . / - ' + *, non-ASCII words; a name that is a prefix of another; a, b and a-b / a+b / a*b / a/b all bound; "
        "a+b bound but b not; three-word symbol names) x 31 expression positions (operands of every arithmetic operator, comparisons, between, in, if, for / some / every domains and bodies, multi-word "
        "iteration variables and formal parameters, filters, context values and multi-word keys, path heads, positional and named invocation) x 2 random spellings of every name occurrence; plus histories on one scope object whose names are re-bound between parses (a context gains / loses a multi-word entry, a new multi-word name, a list becomes a list of contexts). "
        "Distinct = rendered text + name set; non-trivial = all of them (every text contains a multi-part name)." % n_rounds
    )
    rep.assumptions = [
        "the reference evaluates the generator's tree in which each intended name occurrence is one identifier; it never parses the spelling",
        "the scope is built from (name parts, value) pairs via Name::new, not through the lexer",
        "words are never FEEL keywords, literals or built-in function names",
    ]
    rng = rng_for(seed, "c10")
    cases, meta = [], []
    for rnd in range(n_rounds):
        for fam, ns, roles in families(rng):
            spellings = {c: parts for c, (parts, v) in ns.names.items()}
            texts, exps = [], []
            for pos, tree in templates(roles, rng):
                try:
                    exp = ("ok", rfeel.ev(tree, ns.env()))
                except rfeel.Undecided as u:
                    exp = ("undecided", str(u))
                for _ in range(2):
                    texts.append(render_spelled(tree, spellings, rng))
                    exps.append((pos, exp))
            cases.append(warm({"op": "evalmany", "scope": ns.scope_json(), "texts": texts}))
            meta.append((fam, ns, exps))
    results, _ = runner.run_cases("dbg", cases, rep.workdir, label="names")
    covered = set()
    for case, (fam, ns, exps), res in zip(cases, meta, results):
        if "harness_error" in res or res.get("missing"):
            raise runner.Inconclusive("driver harness error: %s" % json.dumps(res)[:300])
        if "rs" not in res:
            rep.violation(crash_signature(res, "c10"), "batch died: %s" % json.dumps(res)[:300], {"variant": "dbg", "case": case})
            continue
        for text, (pos, exp), r in zip(case["texts"], exps, res["rs"]):
            rep.count()
            one = {"variant": "dbg", "case": {"op": "eval", "scope": case["scope"], "warm_scope": case.get("warm_scope"), "reps": 2, "text": text}}
            if "rep_diff" in r:
                rep.violation("repeated-evaluation-differs:%s:%s" % (fam, pos), "`%s` evaluated twice by one prepared evaluator over the same scope: %s" % (text[:200], json.dumps(r["rep_diff"])[:300]), one)
            if "panic" in r:
                rep.violation(panic_signature(r["panic"]) + ":" + fam.split(":")[0], "panic on `%s`" % text[:200], one)
                continue
            if exp[0] == "undecided":
                rep.undecided += 1
                continue
            rep.seen((text, tuple(sorted(ns.names))))
            covered.add((fam, pos))
            if "perr" in r or "berr" in r:
                one["expected"] = rfeel.show(exp[1])
                rep.violation("rejected:%s:%s" % (fam, pos), "names %s: `%s` rejected: %s" % (sorted(ns.names), text[:200], r.get("perr") or r.get("berr")), one)
                continue
            if not rfeel.same(exp[1], r.get("v")):
                one["expected"], one["observed"] = rfeel.show(exp[1]), r
                rep.violation("value:%s:%s" % (fam, pos), "names %s: `%s` gave %s, with each bound name resolved as one identifier it is %s" % (sorted(ns.names), text[:200], json.dumps(r.get("v"))[:160], rfeel.show(exp[1])[:160]), one)
            elif len(rep.samples) < 5 and fam != "random":
                rep.sample({"bound_names": sorted(ns.names), "text": text, "value": r.get("v")})
    # ---- histories on ONE scope object: names are re-bound between parses (a context gains or loses a multi-word entry, a
    # list becomes a list of contexts, a new multi-word name appears); every text must resolve against the bindings of
    # that moment
    hcases, hmeta = [], []
    n_hist = 300 if tier == "quick" else 12000
    for h in range(n_hist):
        fam, ns, roles = rng.choice(families(rng))
        env = ns.env()[0]
        C, L, N1, N2 = roles["ctx"], roles["lst"], ("name", roles["n1"]), ("name", roles["n2"])
        k1, k2, newname = canon(make_name(rng, rng.choice([2, 3]), 0.3)), canon(make_name(rng, 2, 0.0)), canon(make_name(rng, rng.choice([2, 3]), 0.3))
        if any(x in env or _clash_text(x, env) for x in (k1, k2, newname)) or len({k1, k2, newname}) < 3:
            continue
        steps, exps = [], []

        def text(tree, pos, written=None):
            try:
                exp = ("ok", rfeel.ev(tree, [dict(env)]))
            except rfeel.Undecided as u:
                exp = ("undecided", str(u))
            # `written`: the text without the parentheses the renderer would add, so that a multi-word name is directly
            # followed by an operator (that is where its end depends on the names in scope)
            steps.append({"text": written or rfeel.render(tree)})
            exps.append((pos, exp))

        SYM = {"mul": "*", "add": "+", "sub": "-", "div": "/"}

        def rebind(name, value):
            env[name] = value
            steps.append({"set": [[name, rfeel.to_json(value)]]})
            exps.append(None)

        n1s, n2s = roles["n1"], roles["n2"]
        text(("add", ("path", ("name", C), "entry"), N1), "before", "%s.entry + %s" % (C, n1s))
        rebind(C, {"entry": Decimal(3), k1: Decimal(400)})
        for op in rng.sample(["mul", "add", "sub", "div"], 2):
            text((op, ("path", ("name", C), k1), N1), "context-gained-entry:" + op, "%s.%s %s %s" % (C, k1, SYM[op], n1s))
        rebind(C, {"entry": Decimal(5)})
        text(("add", ("path", ("name", C), "entry"), N2), "context-lost-entry", "%s.entry + %s" % (C, n2s))
        rebind(newname, Decimal(9))
        for op in rng.sample(["mul", "add", "sub", "div"], 2):
            text((op, ("name", newname), N1), "new-name:" + op, "%s %s %s" % (newname, SYM[op], n1s))
        rebind(L, [{k2: Decimal(1)}, {k2: Decimal(2)}, {k2: Decimal(5)}])
        text(("path", ("name", L), k2), "list-became-contexts:path", "%s.%s" % (L, k2))
        text(("for", [("x", ("dom_list", ("name", L)))], ("mul", ("path", ("name", "x"), k2), N2)), "list-became-contexts:for", "for x in %s return x.%s * %s" % (L, k2, n2s))
        rebind(roles["n1"], Decimal(1000))
        text(("sub", N1, N2), "number-rebound", "%s - %s" % (n1s, n2s))
        # rows with DIFFERENT keys: an entry name is known from whichever row of a bound list of contexts carries it (not the first
        # row only, not only rows that come before a row without new keys, also from a context nested in a row)
        arr = rng.choice(["after-row-without-new-key", "missing-in-first-row", "after-empty-row", "first-row-only", "nested-in-row", "last-of-six-rows"])
        V = Decimal(4)
        rows, idx, nested = {
            "after-row-without-new-key": ([{k2: Decimal(1)}, {k2: Decimal(2)}, {k2: Decimal(3), k1: V}], 3, False),
            "missing-in-first-row": ([{k2: Decimal(1)}, {k1: V}], 2, False),
            "after-empty-row": ([{}, {k1: V}], 2, False),
            "first-row-only": ([{k1: V}, {k2: Decimal(1)}], 1, False),
            "nested-in-row": ([{k2: Decimal(1)}, {k2: {k1: V}}], 2, True),
            "last-of-six-rows": ([{k2: Decimal(j)} for j in range(5)] + [{k2: Decimal(9), k1: V}], 6, False),
        }[arr]
        rebind(L, rows)
        row = ("filter", ("name", L), ("num", str(idx)), "index")
        for op in rng.sample(["mul", "add", "sub", "div"], 2):
            if nested:
                text((op, ("path", ("path", row, k2), k1), N2), "rows:%s:%s" % (arr, op), "%s[%d].%s.%s %s %s" % (L, idx, k2, k1, SYM[op], n2s))
            else:
                text((op, ("path", row, k1), N2), "rows:%s:%s" % (arr, op), "%s[%d].%s %s %s" % (L, idx, k1, SYM[op], n2s))
        if not nested:
            text(("some", [("x", ("name", L))], ("cmp", "=", ("sub", ("path", ("name", "x"), k1), ("num", "4")), ("num", "0"))), "rows:%s:some" % arr, "some x in %s satisfies x.%s - 4 = 0" % (L, k1))
            text(("in", ("path", row, k1), ("range", ("num", "1"), True, ("num", "9"), True)), "rows:%s:in" % arr, "%s[%d].%s in [1..9]" % (L, idx, k1))
            text(("filter", ("name", L), ("cmp", ">", ("sub", ("name", k1), ("num", "3")), ("num", "0")), "pred"), "rows:%s:filter" % arr, "%s[%s - 3 > 0]" % (L, k1))
        hcases.append({"op": "scopehist", "scope": ns.scope_json(), "steps": steps})
        hmeta.append((fam, sorted(ns.names), exps))
    hres, _ = runner.run_cases("dbg", hcases, rep.workdir, label="histories")
    hsteps = 0
    for case, (fam, names, exps), res in zip(hcases, hmeta, hres):
        if "harness_error" in res or res.get("missing"):
            raise runner.Inconclusive("driver harness error: %s" % json.dumps(res)[:300])
        if "rs" not in res:
            rep.violation(crash_signature(res, "c10-history"), "history died: %s" % json.dumps(res)[:300], {"variant": "dbg", "case": case})
            continue
        for k, (st, e, r) in enumerate(zip(case["steps"], exps, res["rs"])):
            if e is None:
                continue
            pos, exp = e
            rep.count()
            hsteps += 1
            one = {"variant": "dbg", "case": {"op": "scopehist", "scope": case["scope"], "steps": case["steps"][: k + 1]}}
            if "panic" in r:
                rep.violation(panic_signature(r["panic"]) + ":history", "panic on `%s`" % st["text"][:200], one)
                continue
            if exp[0] == "undecided":
                rep.undecided += 1
                continue
            covered.add(("history", pos))
            if "perr" in r or "berr" in r:
                rep.violation("rejected:history:%s" % pos, "names %s, after the re-bindings of this history `%s` is rejected: %s" % (names, st["text"][:200], r.get("perr") or r.get("berr")), one)
            elif not rfeel.same(exp[1], r.get("v")):
                one["expected"], one["observed"] = rfeel.show(exp[1]), r
                rep.violation("value:history:%s" % pos, "names %s, after the re-bindings of this history `%s` gave %s, the bindings of that moment give %s" % (names, st["text"][:200], json.dumps(r.get("v"))[:160], rfeel.show(exp[1])[:160]), one)
    rep.extra["history_steps_judged"] = hsteps
    rep.extra["family_x_position_covered"] = len(covered)
    if rep.evaluations < 5000:
        rep.inconclusive_reason("too few evaluations: %d" % rep.evaluations)
