"""XML fault injector and small DMN 1.3 model writer for C12 (fault enumeration over model texts).

The injector works on the TEXT of a model with a small tokenizer that records the spans of every
element, attribute and text node; a fault is a list of span edits `(a, b, replacement)`, so everything
outside the fault is reproduced byte for byte (prefixes, namespaces, comments, DMNDI ...), and the
structural faults keep the document well-formed (the fault reaches the DMN parser / evaluator builder
instead of being rejected by the XML reader).

Public API
    parse(text) -> Doc                      tokenizer (elements / attributes / texts with spans)
    single_faults(doc) -> [Fault]           every single structural fault at every position
    apply(text, edits) -> str               applies disjoint span edits
    disjoint(f1, f2) -> bool                pair of faults applicable together
    text_corruptions(text, rng, n, ...)     seeded character-level corruption
    hostile_texts()                         a few hand-made hostile documents
    sample_inputs(doc)                      sample input context binding every inputData of the model
    generated_models()                      [(name, xml)] small generated DMN 1.3 models
Stdlib only.
"""
import re

# ---------------------------------------------------------------------------------------------
# tokenizer
# ---------------------------------------------------------------------------------------------


class Attr(object):
    __slots__ = ("name", "local", "value", "a", "b", "va", "vb", "quote", "elem")

    def __init__(self, name, value, a, b, va, vb, quote, elem):
        self.name = name
        self.local = name.split(":")[-1]
        self.value = value
        self.a = a  # start, including the leading white space
        self.b = b  # end, after the closing quote
        self.va = va  # value span (inside the quotes)
        self.vb = vb
        self.quote = quote
        self.elem = elem


class Text(object):
    __slots__ = ("a", "b", "raw", "cdata", "parent")

    def __init__(self, a, b, raw, cdata, parent):
        self.a = a
        self.b = b
        self.raw = raw
        self.cdata = cdata
        self.parent = parent


class Elem(object):
    __slots__ = ("name", "local", "attrs", "start", "stag_end", "etag_start", "end", "selfclosing", "children", "parent")

    def __init__(self, name, start, parent):
        self.name = name
        self.local = name.split(":")[-1]
        self.attrs = []
        self.start = start  # offset of '<'
        self.stag_end = None  # offset after the '>' of the start tag
        self.etag_start = None  # offset of '</' (== stag_end for self-closing)
        self.end = None  # offset after the last '>' of the element
        self.selfclosing = False
        self.children = []
        self.parent = parent

    def attr(self, local):
        for a in self.attrs:
            if a.local == local:
                return a
        return None

    def elems(self):
        return [c for c in self.children if isinstance(c, Elem)]

    def texts(self):
        return [c for c in self.children if isinstance(c, Text)]

    def child(self, local):
        for c in self.children:
            if isinstance(c, Elem) and c.local == local:
                return c
        return None

    def walk(self):
        stack = [self]
        while stack:
            e = stack.pop()
            yield e
            stack.extend(reversed(e.elems()))

    def text_content(self):
        return "".join(unescape(t.raw) if not t.cdata else t.raw for t in self.texts())


class Doc(object):
    def __init__(self, text, root, all_elems):
        self.text = text
        self.root = root
        self.elems = all_elems  # document order


class XmlSyntax(Exception):
    pass


_NAME = r"[^\s=/<>\"']+"
_ATTR_RE = re.compile(r"(\s+)(" + _NAME + r")\s*=\s*(?:\"([^\"]*)\"|'([^']*)')")
_STAG_RE = re.compile(r"<(" + _NAME + r")")
_ETAG_RE = re.compile(r"</(" + _NAME + r")\s*>")


def parse(text):
    """Tokenizes well-formed XML; raises XmlSyntax on anything it does not understand."""
    n = len(text)
    pos = 0
    root = None
    cur = None
    all_elems = []
    while pos < n:
        if text.startswith("<!--", pos):
            k = text.find("-->", pos + 4)
            if k < 0:
                raise XmlSyntax("unterminated comment")
            pos = k + 3
        elif text.startswith("<?", pos):
            k = text.find("?>", pos + 2)
            if k < 0:
                raise XmlSyntax("unterminated PI")
            pos = k + 2
        elif text.startswith("<![CDATA[", pos):
            k = text.find("]]>", pos + 9)
            if k < 0:
                raise XmlSyntax("unterminated CDATA")
            if cur is not None:
                cur.children.append(Text(pos, k + 3, text[pos + 9 : k], True, cur))
            pos = k + 3
        elif text.startswith("<!", pos):
            depth = 0
            k = pos
            while k < n:
                c = text[k]
                if c == "[":
                    depth += 1
                elif c == "]":
                    depth -= 1
                elif c == ">" and depth <= 0:
                    break
                k += 1
            pos = k + 1
        elif text.startswith("</", pos):
            m = _ETAG_RE.match(text, pos)
            if not m or cur is None or m.group(1) != cur.name:
                raise XmlSyntax("bad end tag at %d" % pos)
            cur.etag_start = pos
            cur.end = m.end()
            pos = m.end()
            cur = cur.parent
        elif text[pos] == "<":
            m = _STAG_RE.match(text, pos)
            if not m:
                raise XmlSyntax("bad start tag at %d" % pos)
            e = Elem(m.group(1), pos, cur)
            k = m.end()
            while True:
                am = _ATTR_RE.match(text, k)
                if not am:
                    break
                if am.group(3) is not None:
                    val, va, vb, q = am.group(3), am.start(3), am.end(3), '"'
                else:
                    val, va, vb, q = am.group(4), am.start(4), am.end(4), "'"
                e.attrs.append(Attr(am.group(2), val, am.start(), am.end(), va, vb, q, e))
                k = am.end()
            while k < n and text[k] in " \t\r\n":
                k += 1
            if text.startswith("/>", k):
                e.selfclosing = True
                e.stag_end = k + 2
                e.etag_start = k + 2
                e.end = k + 2
                pos = k + 2
            elif k < n and text[k] == ">":
                e.stag_end = k + 1
                pos = k + 1
            else:
                raise XmlSyntax("bad start tag at %d" % pos)
            all_elems.append(e)
            if cur is not None:
                cur.children.append(e)
            elif root is None:
                root = e
            else:
                raise XmlSyntax("second root")
            if not e.selfclosing:
                cur = e
        else:
            k = text.find("<", pos)
            if k < 0:
                k = n
            if cur is not None and text[pos:k].strip():
                cur.children.append(Text(pos, k, text[pos:k], False, cur))
            pos = k
    if cur is not None or root is None:
        raise XmlSyntax("unbalanced document")
    return Doc(text, root, all_elems)


def unescape(s):
    if "&" not in s:
        return s

    def rep(m):
        t = m.group(1)
        if t == "lt":
            return "<"
        if t == "gt":
            return ">"
        if t == "amp":
            return "&"
        if t == "quot":
            return '"'
        if t == "apos":
            return "'"
        try:
            if t.startswith("#x"):
                return chr(int(t[2:], 16))
            if t.startswith("#"):
                return chr(int(t[1:]))
        except ValueError:
            pass
        return m.group(0)

    return re.sub(r"&([#\w]+);", rep, s)


def escape(s):
    return s.replace("&", "&amp;").replace("<", "&lt;").replace(">", "&gt;").replace('"', "&quot;")


# ---------------------------------------------------------------------------------------------
# faults
# ---------------------------------------------------------------------------------------------


class Fault(object):
    """kind: fault kind; ekind: fine element kind (parent/local[@attr]) used for the coverage matrix;
    sclass: coarse `kind:localname` used in crash signatures; edits: disjoint span edits; lo/hi: hull."""

    __slots__ = ("kind", "ekind", "sclass", "edits", "lo", "hi", "note")

    def __init__(self, kind, ekind, local, edits, note=""):
        self.kind = kind
        self.ekind = ekind
        self.sclass = "%s:%s" % (kind, local)
        self.edits = edits
        self.lo = min(e[0] for e in edits)
        self.hi = max(e[1] for e in edits)
        self.note = note

    def cls(self):
        return (self.kind, self.ekind)


def apply(text, edits):
    out = text
    for a, b, r in sorted(edits, key=lambda e: (e[0], e[1]), reverse=True):
        out = out[:a] + r + out[b:]
    return out


def disjoint(f1, f2):
    """True when the hulls of the two faults do not touch (so both can be applied to the same text)."""
    return f1.hi < f2.lo or f2.hi < f1.lo


GARBLED_ATTR = "&#167;gar&lt;bled&amp; {[(&#9731; \\"
GARBAGE_TEXT = "&#167;&#167; gar&lt;bage&gt; &amp; %% {[( &#9731;"
BROKEN_FEEL = [
    "1 + * ( if then",
    "((1",
    "&quot;abc",
    "[1..",
    "function(",
    "if x then",
    "{a: 1, b:",
    "for i in return",
    "&lt; &gt;= ,, not(",
    "a.b.(c",
]
MISSING_ID = "_c12_missing_id_0000"
MISSING_TYPE = "tC12NoSuchType"

DRG_KINDS = ("decision", "businessKnowledgeModel", "decisionService", "inputData", "knowledgeSource")
HREF_PARENTS = ("requiredDecision", "requiredInput", "requiredKnowledge", "requiredAuthority", "outputDecision", "encapsulatedDecision", "inputDecision", "inputData")


def ekind_of(e):
    if e.parent is None:
        return e.local
    return "%s/%s" % (e.parent.local, e.local)


def _drg_container(e):
    """The top-level DRG element (child of definitions) that contains `e`, or None."""
    while e is not None and e.parent is not None:
        if e.parent.parent is None and e.local in DRG_KINDS:
            return e
        e = e.parent
    return None


def _href_id(value):
    v = unescape(value)
    return v.split("#", 1)[1] if "#" in v else v


class Graph(object):
    """Requirement graph (by href) between the DRG elements and reference graph (by typeRef name)
    between the top-level item definitions of the ORIGINAL model."""

    def __init__(self, doc):
        self.by_id = {}
        self.drg = []
        root = doc.root
        for e in root.elems():
            if e.local in DRG_KINDS:
                self.drg.append(e)
                ida = e.attr("id")
                if ida is not None:
                    self.by_id[unescape(ida.value)] = e
        # requires[x] = set of ids x points to
        self.requires = {}
        for e in self.drg:
            ida = e.attr("id")
            if ida is None:
                continue
            src = unescape(ida.value)
            tgt = set()
            for d in e.walk():
                h = d.attr("href")
                if h is not None:
                    tgt.add(_href_id(h.value))
            self.requires[src] = tgt
        # item definitions by name
        self.items = {}
        for e in root.elems():
            if e.local == "itemDefinition":
                na = e.attr("name")
                if na is not None:
                    self.items[unescape(na.value)] = e
        self.item_refs = {}
        for name, e in self.items.items():
            refs = set()
            for d in e.walk():
                if d.local == "typeRef":
                    refs.add(_strip_prefix(d.text_content().strip()))
                ta = d.attr("typeRef")
                if ta is not None:
                    refs.add(_strip_prefix(unescape(ta.value).strip()))
            self.item_refs[name] = refs

    def requirers(self, target_id):
        """ids of DRG elements that transitively require `target_id`, nearest first."""
        out = []
        seen = {target_id}
        frontier = [target_id]
        while frontier:
            nxt = []
            for t in frontier:
                for src, tg in sorted(self.requires.items()):
                    if t in tg and src not in seen:
                        seen.add(src)
                        out.append(src)
                        nxt.append(src)
            frontier = nxt
        return out

    def item_requirers(self, name):
        out = []
        seen = {name}
        frontier = [name]
        while frontier:
            nxt = []
            for t in frontier:
                for src, refs in sorted(self.item_refs.items()):
                    if t in refs and src not in seen:
                        seen.add(src)
                        out.append(src)
                        nxt.append(src)
            frontier = nxt
        return out


def _strip_prefix(t):
    return t.split(":", 1)[1] if ":" in t and not t.startswith(":") else t


def _spread(items, k):
    """At most k items spread over the list (first, last, middle ...), deterministic."""
    if len(items) <= k:
        return list(items)
    idx = sorted(set(int(round(i * (len(items) - 1) / float(k - 1))) for i in range(k)))
    return [items[i] for i in idx]


def single_faults(doc, max_requirers=4):
    """Every single structural fault at every position of the document (see module doc)."""
    text = doc.text
    g = Graph(doc)
    out = []
    tcount = 0
    for e in doc.elems:
        ek = ekind_of(e)
        span = text[e.start : e.end]
        # ---- element faults ----
        out.append(Fault("delete", ek, e.local, [(e.start, e.end, "")]))
        out.append(Fault("duplicate", ek, e.local, [(e.end, e.end, span)]))
        if not e.selfclosing and e.etag_start > e.stag_end and text[e.stag_end : e.etag_start].strip():
            out.append(Fault("empty", ek, e.local, [(e.stag_end, e.etag_start, "")]))
        if e.parent is not None:
            sibs = e.parent.elems()
            i = sibs.index(e)
            if i + 1 < len(sibs):
                nx = sibs[i + 1]
                other = text[nx.start : nx.end]
                if other != span:
                    out.append(Fault("swap", ek, e.local, [(e.start, e.end, other), (nx.start, nx.end, span)]))
            same = [s for s in sibs if s.local == e.local]
            if len(same) >= 2 and same[0] is e:
                out.append(Fault("delete-all-same", ek, e.local, [(s.start, s.end, "") for s in same]))
        # ---- attribute faults ----
        for a in e.attrs:
            ak = "%s@%s" % (ek, a.local)
            al = "%s@%s" % (e.local, a.local)
            out.append(Fault("attr-delete", ak, al, [(a.a, a.b, "")]))
            if a.value != "":
                out.append(Fault("attr-empty", ak, al, [(a.va, a.vb, "")]))
            out.append(Fault("attr-garble", ak, al, [(a.va, a.vb, GARBLED_ATTR if a.quote == '"' else GARBLED_ATTR.replace("'", "")) ]))
            if a.local == "href":
                out.extend(_href_faults(doc, g, e, a, ek, max_requirers))
            if a.local in ("typeRef", "outputTypeRef"):
                out.extend(_typeref_faults(g, e, ek, e.local + "@" + a.local, a.va, a.vb, unescape(a.value), True, max_requirers))
        # ---- text faults ----
        for t in e.texts():
            tk = ek + "/#text"
            out.append(Fault("text-empty", tk, e.local, [(t.a, t.b, "")]))
            out.append(Fault("text-garbage", tk, e.local, [(t.a, t.b, GARBAGE_TEXT)]))
            out.append(Fault("text-badfeel", tk, e.local, [(t.a, t.b, BROKEN_FEEL[tcount % len(BROKEN_FEEL)])]))
            tcount += 1
            if e.local == "typeRef":
                out.extend(_typeref_faults(g, e, ek, e.parent.local if e.parent is not None else "typeRef", t.a, t.b, t.raw.strip(), False, max_requirers))
    return out


def _href_faults(doc, g, e, a, ek, max_requirers):
    out = []
    ak = "%s@href" % ek
    local = e.local

    def mk(kind, target, note=""):
        out.append(Fault(kind, ak, local, [(a.va, a.vb, "#" + escape(target))], note))

    mk("retarget-missing", MISSING_ID)
    # malformed references: the value goes through a URI parser (empty or invalid scheme before a colon, bad escape, bad authority)
    cur = _href_id(a.value) or "x"
    for form in (":#" + cur, "1a:" + cur, "/:" + cur, "%zz" + cur, "http://[::" + cur):
        out.append(Fault("href-malformed", ak, local, [(a.va, a.vb, escape(form))], form[:6]))
    cont = _drg_container(e)
    cur_target = _href_id(a.value)
    if cont is not None and cont.attr("id") is not None:
        cid = unescape(cont.attr("id").value)
        if cid != cur_target:
            mk("retarget-self", cid)
        reqs = [r for r in g.requirers(cid) if r != cur_target]
        for r in _spread(reqs, max_requirers):
            mk("retarget-requirer", r, "cycle through %s" % r)
    # nearest XML ancestor (not the DRG container) that carries an id
    p = e.parent
    while p is not None and p is not cont:
        ia = p.attr("id")
        if ia is not None and unescape(ia.value) != cur_target:
            mk("retarget-xml-ancestor", unescape(ia.value))
            break
        p = p.parent
    # an existing DRG element of every other kind than the current target's
    cur = g.by_id.get(cur_target)
    cur_kind = cur.local if cur is not None else None
    seen_kinds = set()
    for d in g.drg:
        ia = d.attr("id")
        if ia is None or d.local == cur_kind or d.local in seen_kinds or d is cont:
            continue
        seen_kinds.add(d.local)
        mk("retarget-otherkind", unescape(ia.value), "to a %s" % d.local)
    return out


def _typeref_faults(g, e, ek, local, a, b, current, is_attr, max_requirers):
    """typeRef (attribute value or <typeRef> text) -> missing name, own item definition, ancestor item
    definitions, item definitions that reference the owner (cycle by NAME)."""
    out = []
    k = ek + ("@typeRef" if is_attr else "/#text")
    current = _strip_prefix(current)

    def mk(kind, target, note=""):
        out.append(Fault(kind, k, local, [(a, b, escape(target))], note))

    mk("typeRef-missing", MISSING_TYPE)
    mk("typeRef-simple", "string" if current != "string" else "number")
    # chain of enclosing itemDefinition / itemComponent elements, nearest first
    chain = []
    p = e if is_attr else e.parent
    while p is not None:
        if p.local in ("itemDefinition", "itemComponent"):
            chain.append(p)
        p = p.parent
    if chain:
        own = chain[0].attr("name")
        if own is not None and unescape(own.value) != current:
            mk("typeRef-self", unescape(own.value))
            # the same name as pretty-printed XML would carry it (the lookups may or may not trim)
            mk("typeRef-self-padded", " " + unescape(own.value) + " ")
            mk("typeRef-self-padded", "\n      " + unescape(own.value) + "\n    ")
        for anc in chain[1:]:
            na = anc.attr("name")
            if na is not None and unescape(na.value) != current:
                mk("typeRef-ancestor", unescape(na.value))
        top = chain[-1].attr("name")
        if top is not None:
            reqs = [r for r in g.item_requirers(unescape(top.value)) if r != current]
            for r in _spread(reqs, max_requirers):
                mk("typeRef-requirer", r, "cycle through %s" % r)
                mk("typeRef-requirer-padded", " " + r + " ", "cycle through %s" % r)
    else:
        # a variable / clause / expression typed by an item definition: point it at every kind of definition
        names = sorted(g.items)
        for nme in _spread([x for x in names if x != current], 2):
            mk("typeRef-other", nme)
    return out


def find_cycle(text):
    """Cause analysis of a mutated text: `href-cycle` when the DRG elements (by id) reach themselves through
    hrefs, `typeRef-cycle` when a top-level item definition reaches itself through typeRef names, else None.
    Duplicate ids / names are merged (any of the duplicates may be the one the evaluator picks)."""
    try:
        doc = parse(text)
    except XmlSyntax:
        return None
    edges = {}
    for e in doc.root.elems():
        if e.local in DRG_KINDS:
            ida = e.attr("id")
            if ida is None:
                continue
            tg = edges.setdefault(unescape(ida.value), set())
            for d in e.walk():
                h = d.attr("href")
                if h is not None:
                    tg.add(_href_id(h.value))
    if _has_cycle(edges):
        return "href-cycle"
    edges = {}
    for e in doc.root.elems():
        if e.local == "itemDefinition" and e.attr("name") is not None:
            tg = edges.setdefault(unescape(e.attr("name").value).strip(), set())
            for d in e.walk():
                if d.local == "typeRef":
                    tg.add(_strip_prefix(d.text_content().strip()))
                ta = d.attr("typeRef")
                if ta is not None:
                    tg.add(_strip_prefix(unescape(ta.value).strip()))
    if _has_cycle(edges):
        return "typeRef-cycle"
    return None


def _has_cycle(edges):
    state = {}
    for start in edges:
        if start in state:
            continue
        stack = [(start, iter(sorted(edges.get(start, ()))))]
        state[start] = 1
        while stack:
            node, it = stack[-1]
            nxt = next(it, None)
            if nxt is None:
                state[node] = 2
                stack.pop()
                continue
            if nxt not in edges:
                continue
            st = state.get(nxt)
            if st == 1:
                return True
            if st is None:
                state[nxt] = 1
                stack.append((nxt, iter(sorted(edges.get(nxt, ())))))
    return False


# ---------------------------------------------------------------------------------------------
# character-level corruption
# ---------------------------------------------------------------------------------------------

HOSTILE_CHARS = ["<", ">", "&", '"', "'", "/", "=", "#", ";", "\x00", "\x01", "\x08", "\x0b", "\x1b", "\x7f", "\u0085", "\u2028", "\ufffe", "\uffff", "\U0001F600", "\u00a0", "0", "9", "]", "[", "?", "!", "-"]

CORRUPTION_KINDS = ("bit-flip", "char-replace", "ctrl-inject", "delete-span", "splice", "unbalanced-tag", "swap-spans", "truncate")


def corrupt(text, kind, rng):
    n = len(text)
    if n == 0:
        return text
    p = rng.randrange(n)
    if kind == "bit-flip":
        # flip one bit of an ASCII character (stays a valid str; non-ASCII characters are replaced instead)
        for _ in range(8):
            c = ord(text[p])
            if c < 128:
                return text[:p] + chr(c ^ (1 << rng.randrange(7))) + text[p + 1 :]
            p = rng.randrange(n)
        return text[:p] + "?" + text[p + 1 :]
    if kind == "char-replace":
        return text[:p] + rng.choice(HOSTILE_CHARS) + text[p + 1 :]
    if kind == "ctrl-inject":
        return text[:p] + rng.choice(["\x00", "\x01", "\x0c", "\x1f", "\x7f", "\ufffe", "\r", "\t\t\n"]) + text[p:]
    if kind == "delete-span":
        q = min(n, p + rng.choice([1, 2, 5, 17, 80, 400]))
        return text[:p] + text[q:]
    if kind == "splice":
        q = rng.randrange(n)
        ln = rng.choice([1, 3, 9, 40, 200, 1500])
        return text[:p] + text[q : q + ln] + text[p:]
    if kind == "swap-spans":
        q = rng.randrange(n)
        a, b = min(p, q), max(p, q)
        ln = rng.choice([2, 7, 30, 120])
        if a + ln > b:
            return text[:a] + text[b:] + text[a:b]
        return text[:a] + text[b : b + ln] + text[a + ln : b] + text[a : a + ln] + text[b + ln :]
    if kind == "unbalanced-tag":
        k = rng.randrange(5)
        if k == 0:
            return text[:p] + "<x>" + text[p:]
        if k == 1:
            return text[:p] + "</x>" + text[p:]
        if k == 2:
            q = text.find(">", p)
            return text if q < 0 else text[:q] + text[q + 1 :]
        if k == 3:
            q = text.find("<", p)
            return text if q < 0 else text[:q] + text[q + 1 :]
        q = text.find("/>", p)
        return text if q < 0 else text[:q] + ">" + text[q + 2 :]
    if kind == "truncate":
        return text[:p]
    raise ValueError(kind)


def truncations(text, k):
    """Truncation at every k-th character."""
    return [text[:p] for p in range(0, len(text), k)]


def hostile_texts():
    """A few whole documents that are not derived from a shipped model."""
    ns = 'xmlns="https://www.omg.org/spec/DMN/20191111/MODEL/" namespace="https://c12" name="h" id="h"'
    out = [
        ("empty", ""),
        ("not-xml", "hello"),
        ("only-decl", '<?xml version="1.0" encoding="UTF-8"?>'),
        ("wrong-root", "<a/>"),
        ("bare-definitions", "<definitions/>"),
        ("empty-definitions", "<definitions %s/>" % ns),
        ("nul-only", "\x00"),
        ("bom-definitions", "\ufeff<definitions %s/>" % ns),
        ("entity-loop", '<!DOCTYPE d [<!ENTITY a "&b;"><!ENTITY b "&a;">]><definitions %s><description>&a;</description></definitions>' % ns),
        (
            "entity-bomb",
            '<!DOCTYPE d [<!ENTITY a "aaaaaaaaaa"><!ENTITY b "&a;&a;&a;&a;&a;&a;&a;&a;&a;&a;"><!ENTITY c "&b;&b;&b;&b;&b;&b;&b;&b;&b;&b;"><!ENTITY d "&c;&c;&c;&c;&c;&c;&c;&c;&c;&c;">'
            '<!ENTITY e "&d;&d;&d;&d;&d;&d;&d;&d;&d;&d;"><!ENTITY f "&e;&e;&e;&e;&e;&e;&e;&e;&e;&e;">]><definitions %s><description>&f;</description></definitions>' % ns,
        ),
        ("huge-attribute", "<definitions %s label=\"%s\"/>" % (ns, "x" * 300000)),
        ("many-attributes", "<definitions %s %s/>" % (ns, " ".join('a%d="1"' % i for i in range(3000)))),
    ]
    # not XML / not well-formed, with a multi-byte character starting at every byte offset of the first 272 bytes (whatever a
    # diagnostic quotes from a rejected document is cut at some byte), and the same inside an attribute of a well-formed model
    for off in range(0, 272):
        wide = ("żółć–—", "😀😀", "€€€")[off % 3]
        out.append(("multibyte-at-offset-%d" % off, "x" * off + wide + (" <unclosed", " plain text", "<a><b></a>")[(off // 3) % 3]))
    for off in range(0, 272, 5):
        out.append(("multibyte-in-model-at-offset-%d" % off, "<definitions %s label=\"%s%s\"><unclosed></definitions>" % (ns, "x" * off, "😀—ż")))
    for depth in (200, 2000, 20000):
        out.append(("nested-elements-%d" % depth, "<definitions %s>%s%s</definitions>" % (ns, "<a>" * depth, "</a>" * depth)))
    # nesting inside the parts of a model the DMN parser walks recursively
    for depth in (50, 500, 5000):
        inner = '<literalExpression><text>1</text></literalExpression>'
        for _ in range(depth):
            inner = '<context><contextEntry><variable name="v"/>%s</contextEntry></context>' % inner
        out.append(("nested-contexts-%d" % depth, '<definitions %s><decision name="d" id="d"><variable name="d"/>%s</decision></definitions>' % (ns, inner)))
        comp = '<itemComponent name="leaf"><typeRef>string</typeRef></itemComponent>'
        for _ in range(depth):
            comp = '<itemComponent name="c">%s</itemComponent>' % comp
        out.append(("nested-components-%d" % depth, '<definitions %s><itemDefinition name="t">%s</itemDefinition><inputData name="i" id="i"><variable name="i" typeRef="t"/></inputData></definitions>' % (ns, comp)))
    return out


# ---------------------------------------------------------------------------------------------
# sample inputs
# ---------------------------------------------------------------------------------------------

_SIMPLE = {
    "string": {"s": "a"},
    "number": {"n": "1"},
    "boolean": True,
    "date": {"d": "2021-03-04"},
    "time": {"t": "10:11:12"},
    "dateTime": {"dt": "2021-03-04T10:11:12"},
    "dayTimeDuration": {"dtd": "P1DT2H"},
    "yearMonthDuration": {"ymd": "P1Y2M"},
    "Any": {"n": "1"},
}


def _item_value(g, elem, depth):
    """Sample value for an itemDefinition / itemComponent element of the original model."""
    if depth > 6:
        return None
    coll = elem.attr("isCollection") is not None and elem.attr("isCollection").value.strip() == "true"
    comps = [c for c in elem.elems() if c.local == "itemComponent"]
    tr = elem.child("typeRef")
    if comps:
        v = {"c": [[unescape(c.attr("name").value), _item_value(g, c, depth + 1)] for c in comps if c.attr("name") is not None]}
    elif tr is not None:
        v = _type_value(g, tr.text_content().strip(), depth + 1)
        av = elem.child("allowedValues")
        if av is not None and av.child("text") is not None and isinstance(v, dict):
            m = re.match(r'\s*"([^"]*)"', av.child("text").text_content())
            if m and "s" in v:
                v = {"s": m.group(1)}
    elif elem.attr("typeRef") is not None:
        v = _type_value(g, unescape(elem.attr("typeRef").value).strip(), depth + 1)
    else:
        v = None
    return [v] if coll else v


def _type_value(g, type_ref, depth=0):
    t = _strip_prefix(type_ref)
    if t in _SIMPLE:
        return _SIMPLE[t]
    item = g.items.get(t) or g.items.get(type_ref)
    if item is not None:
        return _item_value(g, item, depth)
    return None


def _wrong(v, keep_shape):
    """A value that does NOT conform: strings become numbers, everything else a string; with keep_shape the
    contexts / lists keep their shape and only the leaves are wrong, otherwise the whole value is a scalar."""
    if keep_shape and isinstance(v, list):
        return [_wrong(x, True) for x in v] + [None]
    if keep_shape and isinstance(v, dict) and "c" in v:
        return {"c": [[k, _wrong(x, True)] for k, x in v["c"]]}
    if isinstance(v, dict) and "s" in v:
        return {"n": "1"}
    return {"s": "zzz"}


def sample_inputs(doc):
    """[empty context, context binding the variable name of every inputData to a value of its type, the
    same plus every decision variable (decision services with input decisions read those) and every
    formal parameter of a business knowledge model (invoking a BKM by name reads those), the same names bound
    to values of the right shape with wrongly typed leaves, the same names bound to wrongly typed scalars]."""
    g = Graph(doc)
    entries = []
    names = set()
    for e in doc.root.elems():
        if e.local != "inputData":
            continue
        var = e.child("variable")
        na = (var.attr("name") if var is not None else None) or e.attr("name")
        if na is None:
            continue
        name = " ".join(unescape(na.value).split())
        if name in names:
            continue
        names.add(name)
        tr = var.attr("typeRef") if var is not None else None
        entries.append([name, _type_value(g, unescape(tr.value).strip()) if tr is not None else {"n": "1"}])
    full = list(entries)
    for e in doc.root.elems():
        if e.local == "decision":
            var = e.child("variable")
            na = (var.attr("name") if var is not None else None) or e.attr("name")
            if na is None:
                continue
            name = " ".join(unescape(na.value).split())
            if name in names:
                continue
            names.add(name)
            tr = var.attr("typeRef") if var is not None else None
            full.append([name, _type_value(g, unescape(tr.value).strip()) if tr is not None else {"n": "1"}])
    for e in doc.root.elems():
        if e.local == "businessKnowledgeModel":
            for fp in e.walk():
                if fp.local == "formalParameter" and fp.attr("name") is not None:
                    name = " ".join(unescape(fp.attr("name").value).split())
                    if name in names:
                        continue
                    names.add(name)
                    tr = fp.attr("typeRef")
                    full.append([name, _type_value(g, unescape(tr.value).strip()) if tr is not None else {"n": "1"}])
    wrong_leaves = [[n, _wrong(v, True)] for n, v in full]
    wrong_shape = [[n, _wrong(v, False)] for n, v in full]
    return [[], entries, full, wrong_leaves, wrong_shape]


# ---------------------------------------------------------------------------------------------
# generated models (compact DMN 1.3 writer)
# ---------------------------------------------------------------------------------------------

DMN13 = "https://www.omg.org/spec/DMN/20191111/MODEL/"


class W(object):
    """Tiny DMN 1.3 writer. Every inputData variable carries a typeRef (ModelEvaluator::new requires it)."""

    def __init__(self, name):
        self.name = name
        self.items = []
        self.drg = []
        self.n = 0

    def nid(self, p):
        self.n += 1
        return "_%s_%s_%d" % (self.name, p, self.n)

    # item definitions ---------------------------------------------------------------------
    def item(self, name, type_ref=None, components=None, collection=False, allowed=None, tag="itemDefinition"):
        s = '<%s name="%s"%s>' % (tag, escape(name), ' isCollection="true"' if collection else "")
        if type_ref:
            s += "<typeRef>%s</typeRef>" % escape(type_ref)
        if allowed:
            s += "<allowedValues><text>%s</text></allowedValues>" % escape(allowed)
        for c in components or []:
            s += c
        s += "</%s>" % tag
        if tag == "itemDefinition":
            self.items.append(s)
        return s

    def comp(self, name, type_ref=None, components=None, collection=False, allowed=None):
        return self.item(name, type_ref, components, collection, allowed, tag="itemComponent")

    # expressions --------------------------------------------------------------------------
    @staticmethod
    def lit(text, type_ref=None):
        return "<literalExpression%s><text>%s</text></literalExpression>" % (' typeRef="%s"' % type_ref if type_ref else "", escape(text))

    @staticmethod
    def ctx(entries):
        s = "<context>"
        for name, expr in entries:
            s += "<contextEntry>"
            if name is not None:
                s += '<variable name="%s"/>' % escape(name)
            s += expr + "</contextEntry>"
        return s + "</context>"

    @staticmethod
    def invocation(fn, bindings):
        s = "<invocation>" + W.lit(fn)
        for pname, expr in bindings:
            s += '<binding><parameter name="%s"/>%s</binding>' % (escape(pname), expr)
        return s + "</invocation>"

    @staticmethod
    def relation(cols, rows):
        s = "<relation>" + "".join('<column name="%s"/>' % escape(c) for c in cols)
        for r in rows:
            s += "<row>" + "".join(W.lit(x) for x in r) + "</row>"
        return s + "</relation>"

    @staticmethod
    def function(params, body, kind=None):
        s = "<functionDefinition%s>" % (' kind="%s"' % kind if kind else "")
        for pname, ptype, pexpr in params:
            s += '<formalParameter name="%s"%s>%s</formalParameter>' % (escape(pname), ' typeRef="%s"' % ptype if ptype else "", pexpr or "")
        return s + body + "</functionDefinition>"

    def table(self, inputs, outputs, rules, hit="UNIQUE", agg=None, label=None):
        """inputs: [(expr, input_values|None)], outputs: [(name|None, typeRef|None, output_values|None, default|None)],
        rules: [([in..],[out..])]"""
        s = '<decisionTable id="%s" hitPolicy="%s"%s%s>' % (self.nid("dt"), hit, ' aggregation="%s"' % agg if agg else "", ' outputLabel="%s"' % escape(label) if label else "")
        for expr, vals in inputs:
            s += '<input id="%s"><inputExpression typeRef="number"><text>%s</text></inputExpression>' % (self.nid("in"), escape(expr))
            if vals:
                s += "<inputValues><text>%s</text></inputValues>" % escape(vals)
            s += "</input>"
        for oname, otype, ovals, odef in outputs:
            s += '<output id="%s"%s%s>' % (self.nid("out"), ' name="%s"' % escape(oname) if oname else "", ' typeRef="%s"' % otype if otype else "")
            if ovals:
                s += "<outputValues><text>%s</text></outputValues>" % escape(ovals)
            if odef:
                s += "<defaultOutputEntry><text>%s</text></defaultOutputEntry>" % escape(odef)
            s += "</output>"
        for ins, outs in rules:
            s += '<rule id="%s">' % self.nid("r")
            for x in ins:
                s += '<inputEntry id="%s"><text>%s</text></inputEntry>' % (self.nid("ie"), escape(x))
            for x in outs:
                s += '<outputEntry id="%s"><text>%s</text></outputEntry>' % (self.nid("oe"), escape(x))
            s += "</rule>"
        return s + "</decisionTable>"

    # DRG elements -------------------------------------------------------------------------
    def input(self, name, type_ref, eid=None):
        eid = eid or self.nid("i")
        self.drg.append('<inputData name="%s" id="%s"><variable name="%s" typeRef="%s"/></inputData>' % (escape(name), eid, escape(name), escape(type_ref)))
        return eid

    def decision(self, name, logic, inputs=(), decisions=(), knowledge=(), type_ref=None, eid=None):
        eid = eid or self.nid("d")
        s = '<decision name="%s" id="%s"><variable name="%s"%s/>' % (escape(name), eid, escape(name), ' typeRef="%s"' % escape(type_ref) if type_ref else "")
        for r in decisions:
            s += '<informationRequirement id="%s"><requiredDecision href="#%s"/></informationRequirement>' % (self.nid("ir"), r)
        for r in inputs:
            s += '<informationRequirement id="%s"><requiredInput href="#%s"/></informationRequirement>' % (self.nid("ir"), r)
        for r in knowledge:
            s += '<knowledgeRequirement id="%s"><requiredKnowledge href="#%s"/></knowledgeRequirement>' % (self.nid("kr"), r)
        s += logic + "</decision>"
        self.drg.append(s)
        return eid

    def bkm(self, name, params, body, knowledge=(), type_ref=None, eid=None):
        eid = eid or self.nid("b")
        s = '<businessKnowledgeModel name="%s" id="%s"><variable name="%s"%s/>' % (escape(name), eid, escape(name), ' typeRef="%s"' % escape(type_ref) if type_ref else "")
        s += "<encapsulatedLogic>"
        for pname, ptype in params:
            s += '<formalParameter name="%s"%s/>' % (escape(pname), ' typeRef="%s"' % ptype if ptype else "")
        s += body + "</encapsulatedLogic>"
        for r in knowledge:
            s += '<knowledgeRequirement id="%s"><requiredKnowledge href="#%s"/></knowledgeRequirement>' % (self.nid("kr"), r)
        s += "</businessKnowledgeModel>"
        self.drg.append(s)
        return eid

    def service(self, name, outputs, encapsulated=(), input_decisions=(), input_data=(), type_ref=None, eid=None):
        eid = eid or self.nid("s")
        s = '<decisionService name="%s" id="%s"><variable name="%s"%s/>' % (escape(name), eid, escape(name), ' typeRef="%s"' % escape(type_ref) if type_ref else "")
        for r in outputs:
            s += '<outputDecision href="#%s"/>' % r
        for r in encapsulated:
            s += '<encapsulatedDecision href="#%s"/>' % r
        for r in input_decisions:
            s += '<inputDecision href="#%s"/>' % r
        for r in input_data:
            s += '<inputData href="#%s"/>' % r
        s += "</decisionService>"
        self.drg.append(s)
        return eid

    def xml(self):
        return '<?xml version="1.0" encoding="UTF-8"?>\n<definitions xmlns="%s" namespace="https://c12.verif/%s" name="%s" id="_%s">\n%s\n%s\n</definitions>\n' % (
            DMN13,
            self.name,
            self.name,
            self.name,
            "\n".join(self.items),
            "\n".join(self.drg),
        )


def generated_models():
    """Small models that put every construct the builders handle next to each other, so that the
    fault enumeration reaches combinations the shipped examples do not contain."""
    out = []

    # g01: decision tables of every hit policy, single and compound outputs, input/output values, defaults
    for k, (hit, agg) in enumerate([("UNIQUE", None), ("ANY", None), ("FIRST", None), ("PRIORITY", None), ("RULE ORDER", None), ("OUTPUT ORDER", None), ("COLLECT", None), ("COLLECT", "SUM"), ("COLLECT", "MIN"), ("COLLECT", "MAX"), ("COLLECT", "COUNT")]):
        w = W("g01_%d" % k)
        a = w.input("A", "number")
        b = w.input("B Name", "string")
        single = w.table(
            [("A", "[0..100]"), ("B Name", '"x","y"')],
            [(None, "number", "3,2,1", "0" if k % 2 == 0 else None)],
            [(["<10", '"x"'], ["1"]), (["[10..50]", "-"], ["2"]), ([">50", '"y"'], ["3"]), (["-", "-"], ["1"])],
            hit,
            agg,
            "Out",
        )
        w.decision("Single", single, inputs=[a, b], type_ref="number" if agg else None)
        if agg is None:
            compound = w.table(
                [("A", None)],
                [("P", "number", "1,2", None), ("Q", "string", '"lo","hi"', None)],
                [(["<10"], ["1", '"lo"']), ([">=10"], ["2", '"hi"']), (["-"], ["1", '"lo"'])],
                hit,
                agg,
            )
            w.decision("Compound", compound, inputs=[a])
        noin = w.table([], [(None, None, None, None)], [([], ['"const"'])], hit, agg)
        w.decision("NoInputs", noin)
        out.append((w.name, w.xml()))

    # g02: requirement chain with a BKM chain, invocation, context, relation, function definition
    w = W("g02")
    x = w.input("X", "number")
    y = w.input("Y", "number")
    b2 = w.bkm("Twice", [("n", "number")], W.lit("n * 2"), type_ref="number")
    b1 = w.bkm("Quad", [("n", "number")], W.lit("Twice(Twice(n))"), knowledge=[b2])
    b3 = w.bkm("Table Fn", [("n", "number")], w.table([("n", None)], [(None, None, None, None)], [(["<0"], ['"neg"']), ([">=0"], ['"pos"'])]))
    b4 = w.bkm("Ctx Fn", [("p", None), ("q", None)], W.ctx([("s", W.lit("p + q")), (None, W.lit("s * s"))]))
    d1 = w.decision("Base", W.lit("X + Y"), inputs=[x, y], type_ref="number")
    d2 = w.decision("Mid", W.invocation("Quad", [("n", W.lit("Base"))]), decisions=[d1], knowledge=[b1])
    d3 = w.decision(
        "Top",
        W.ctx([("a", W.lit("Mid")), ("b", W.invocation("Table Fn", [("n", W.lit("a"))])), ("c", W.invocation("Ctx Fn", [("p", W.lit("a")), ("q", W.lit("X"))])), ("r", W.relation(["k", "v"], [["1", '"one"'], ["2", '"two"']]))]),
        decisions=[d2],
        inputs=[x],
        knowledge=[b3, b4],
    )
    w.decision("Fn", W.function([("n", "number", W.lit("Base"))], W.lit("Twice")), decisions=[d1], knowledge=[b2])
    w.decision("Diamond", W.lit("[Base, Mid, Top.a]"), decisions=[d1, d2, d3])
    out.append((w.name, w.xml()))

    # g03: decision services (output / encapsulated / input decisions / input data), service called from a decision
    w = W("g03")
    p = w.input("P", "number")
    q = w.input("Q", "string")
    e1 = w.decision("Enc", W.lit("P + 1"), inputs=[p], type_ref="number")
    i1 = w.decision("In Dec", W.lit("Q"), inputs=[q], type_ref="string")
    o1 = w.decision("Out1", W.lit("Enc * 2"), decisions=[e1], type_ref="number")
    o2 = w.decision("Out2", W.lit('In Dec + "!"'), decisions=[i1], type_ref="string")
    s1 = w.service("Svc One", [o1], encapsulated=[e1], input_data=[p], type_ref="number")
    s2 = w.service("Svc Two", [o1, o2], encapsulated=[e1], input_decisions=[i1], input_data=[p])
    w.decision("Caller", W.lit("Svc One(3)"), knowledge=[s1])
    b = w.bkm("Via Bkm", [("z", "number")], W.lit("Svc One(z)"), knowledge=[s1])
    w.decision("Caller2", W.lit("Via Bkm(4)"), knowledge=[b])
    w.service("Svc Empty", [], input_data=[p, q])
    out.append((w.name, w.xml()))

    # g04: item definitions: simple, allowed values, components, nested components, references, collections of each
    w = W("g04")
    w.item("tName", "string")
    w.item("tLevel", "string", allowed='"lo","hi"')
    w.item("tScore", "number", allowed="[0..10]")
    w.item("tScores", "tScore", collection=True)
    w.item("tNums", "number", collection=True)
    w.item("tAlias", "tName")
    w.item("tAlias2", "tAlias")
    w.item("tAddr", components=[w.comp("street", "tName"), w.comp("no", "number")])
    w.item("tPerson", components=[w.comp("name", "tAlias2"), w.comp("level", "tLevel"), w.comp("addr", "tAddr"), w.comp("scores", "tScores"), w.comp("inner", components=[w.comp("flag", "boolean"), w.comp("tags", "string", collection=True)])])
    w.item("tPeople", "tPerson", collection=True)
    w.item("tRows", components=[w.comp("k", "number"), w.comp("v", "tAlias")], collection=True)
    w.item("tWhen", components=[w.comp("d", "date"), w.comp("t", "time"), w.comp("dt", "dateTime"), w.comp("dtd", "dayTimeDuration"), w.comp("ymd", "yearMonthDuration")])
    i_person = w.input("Person", "tPerson")
    i_people = w.input("People", "tPeople")
    i_rows = w.input("Rows", "tRows")
    i_when = w.input("When", "tWhen")
    i_alias = w.input("Alias", "tAlias2")
    i_nums = w.input("Nums", "tNums")
    d = w.decision("Person Name", W.lit("Person.name"), inputs=[i_person], type_ref="tAlias")
    w.decision("People Count", W.lit("count(People) + count(Rows) + count(Nums)"), inputs=[i_people, i_rows, i_nums], type_ref="number")
    w.decision("Whole Person", W.lit("Person"), inputs=[i_person], type_ref="tPerson")
    w.decision("All People", W.lit("People"), inputs=[i_people], type_ref="tPeople")
    w.decision("When D", W.lit("When.d"), inputs=[i_when], type_ref="date")
    w.decision("Alias Len", W.lit("string length(Alias) + string length(Person Name)"), inputs=[i_alias], decisions=[d])
    w.bkm("Typed Fn", [("who", "tPerson"), ("lvl", "tLevel")], W.lit("who.level = lvl"), type_ref="boolean")
    out.append((w.name, w.xml()))

    # g05: a table in a BKM invoked from a table's output entry; compound output with typed decision; names with symbols
    w = W("g05")
    w.item("tOut", components=[w.comp("P", "number"), w.comp("Q", "string")])
    a = w.input("Monthly Salary", "number")
    c = w.input("Is-Affordable?", "boolean")
    bk = w.bkm("Risk + Score", [("s", "number")], w.table([("s", None)], [(None, "number", None, "0")], [(["<1000"], ["1"]), (["[1000..5000]"], ["2"])], "FIRST"))
    t = w.table(
        [("Monthly Salary", None), ("Is-Affordable?", "true,false")],
        [("P", "number", None, None), ("Q", "string", None, None)],
        [(["<1000", "true"], ["Risk + Score(Monthly Salary)", '"a"']), ([">=1000", "-"], ["Risk + Score(1)", '"b"']), (["-", "false"], ["0", '"c"'])],
        "PRIORITY",
    )
    pk = w.decision("Pick", t, inputs=[a, c], knowledge=[bk], type_ref="tOut")
    w.decision("Use Pick", W.lit("(Pick.P) + 1"), decisions=[pk], type_ref="number")
    out.append((w.name, w.xml()))
    out.append(("g_dmndi", DMNDI_MODEL))
    return out


# a small model with a complete diagram interchange section (styles with colours and alignments, sizes, shapes with bounds,
# labels, a decision-service divider line, edges with way points): none of the shipped examples carries colours
DMNDI_MODEL = """<?xml version="1.0" encoding="UTF-8"?>
<definitions xmlns="https://www.omg.org/spec/DMN/20191111/MODEL/" xmlns:dmndi="https://www.omg.org/spec/DMN/20191111/DMNDI/" xmlns:dc="http://www.omg.org/spec/DMN/20180521/DC/" xmlns:di="http://www.omg.org/spec/DMN/20180521/DI/" namespace="https://verif/g_dmndi" name="g_dmndi" id="_g_dmndi">
<inputData name="Age" id="_in_age"><variable name="Age" typeRef="number"/></inputData>
<decision name="Adult" id="_dec_adult"><variable name="Adult" typeRef="boolean"/><informationRequirement id="_ir1"><requiredInput href="#_in_age"/></informationRequirement><literalExpression><text>Age >= 18</text></literalExpression></decision>
<decisionService name="Svc" id="_svc"><variable name="Svc"/><outputDecision href="#_dec_adult"/><inputData href="#_in_age"/></decisionService>
<dmndi:DMNDI>
<dmndi:DMNStyle id="_style_shared" fontFamily="Arial" fontSize="10" fontItalic="true" fontBold="false" fontUnderline="true" fontStrikeThrough="false" labelHorizontalAlignment="center" labelVerticalAlignment="start">
<dmndi:fillColor red="255" green="128" blue="0"/><dmndi:strokeColor red="0" green="0" blue="0"/><dmndi:fontColor red="10" green="20" blue="30"/><dmndi:FillColor red="255" green="128" blue="0"/>
</dmndi:DMNStyle>
<dmndi:DMNDiagram id="_diagram" name="Page 1" resolution="300" sharedStyle="_style_shared">
<dmndi:Size width="190.5" height="240"/>
<di:localStyle><dmndi:DMNStyle fontSize="12" labelHorizontalAlignment="end"><dmndi:fillColor red="1" green="2" blue="3"/></dmndi:DMNStyle></di:localStyle>
<dmndi:DMNShape id="_shape_in" dmnElementRef="_in_age" isCollapsed="false" sharedStyle="_style_shared"><dc:Bounds x="20" y="150" width="150" height="60"/><dmndi:DMNLabel text="Age" sharedStyle="_style_shared"><dc:Bounds x="25" y="155" width="100" height="20"/></dmndi:DMNLabel></dmndi:DMNShape>
<dmndi:DMNShape id="_shape_dec" dmnElementRef="_dec_adult"><dc:Bounds x="20" y="20" width="150" height="60"/><dmndi:localStyle fontBold="true" labelVerticalAlignment="center"><dmndi:strokeColor red="200" green="100" blue="50"/><dmndi:fontColor red="0" green="0" blue="255"/></dmndi:localStyle></dmndi:DMNShape>
<dmndi:DMNShape id="_shape_svc" dmnElementRef="_svc" isCollapsed="true"><dc:Bounds x="0" y="0" width="190" height="240"/><dmndi:DMNDecisionServiceDividerLine id="_divider"><di:waypoint x="0" y="120"/><di:waypoint x="190" y="120"/></dmndi:DMNDecisionServiceDividerLine></dmndi:DMNShape>
<dmndi:DMNEdge id="_edge" dmnElementRef="_ir1" sharedStyle="_style_shared"><di:waypoint x="95" y="150"/><di:waypoint x="95" y="80"/><dmndi:DMNLabel text="requires"/></dmndi:DMNEdge>
</dmndi:DMNDiagram>
</dmndi:DMNDI>
</definitions>"""
