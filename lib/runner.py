"""Build variants of the driver from /repo's working tree and run sharded case files through them.

Everything here is stdlib-only Python. See DESIGN.md §1.
"""
import fcntl
import json
import os
import shutil
import signal
import subprocess
import sys
import threading
import time

VERIF = os.path.dirname(os.path.dirname(os.path.abspath(__file__)))
# Overridable so that a developer can build a scratch copy of the harness without disturbing
# concurrent runs (the registered checks never set these).
HARNESS = os.environ.get("VERIF_HARNESS") or os.path.join(VERIF, "harness")
TARGET = os.environ.get("VERIF_TARGET") or os.path.join(VERIF, "target")
WORK = os.environ.get("VERIF_WORK") or os.path.join(VERIF, "work")
NCPU = min(16, os.cpu_count() or 4)

# Development aid (never set by the registered checks): VERIF_REPO=<scratch worktree of /repo>
# builds the same harness against that tree instead of /repo, in its own target directory, so
# that a seeded change can be tried without touching /repo.
_ALT_REPO = os.environ.get("VERIF_REPO")
if _ALT_REPO and os.path.abspath(_ALT_REPO) != "/repo":
    import hashlib as _hl

    _tag = _hl.sha1(os.path.abspath(_ALT_REPO).encode()).hexdigest()[:10]
    _base = os.environ.get("VERIF_SCRATCH") or ("/tmp/verif_alt_" + _tag)
    _alt_h = os.path.join(_base, "harness")
    os.makedirs(_alt_h, exist_ok=True)
    for _root, _dirs, _files in os.walk(HARNESS):
        _dirs[:] = [d for d in _dirs if d != "target"]
        _rel = os.path.relpath(_root, HARNESS)
        os.makedirs(os.path.join(_alt_h, _rel), exist_ok=True)
        for _f in _files:
            _src = os.path.join(_root, _f)
            _dst = os.path.join(_alt_h, _rel, _f)
            with open(_src, "rb") as _fh:
                _data = _fh.read()
            if _f == "Cargo.toml":
                _data = _data.replace(b'"/repo/', ('"' + os.path.abspath(_ALT_REPO) + "/").encode())
            try:
                with open(_dst, "rb") as _fh:
                    if _fh.read() == _data:
                        continue
            except OSError:
                pass
            with open(_dst, "wb") as _fh:
                _fh.write(_data)
    HARNESS = _alt_h
    if not os.environ.get("VERIF_TARGET"):
        TARGET = os.path.join(_base, "target")
    if not os.environ.get("VERIF_WORK"):
        WORK = os.path.join(_base, "work")

HOOK_CFG = "--cfg dmntk_verif"


class Inconclusive(Exception):
    pass


def _env_base():
    env = dict(os.environ)
    env["CARGO_NET_OFFLINE"] = "true"
    env["RUST_BACKTRACE"] = "0"
    env.pop("RUSTFLAGS", None)
    return env


VARIANTS = {
    "dbg": {
        "cmd": ["cargo", "build", "--offline"],
        "env": {"RUSTFLAGS": HOOK_CFG},
        "bin": "debug/dmntk-verif-driver",
    },
    "rel": {
        "cmd": ["cargo", "build", "--offline", "--release"],
        "env": {"RUSTFLAGS": HOOK_CFG},
        "bin": "release/dmntk-verif-driver",
    },
    "asan": {
        "cmd": ["cargo", "+nightly", "build", "--offline", "--target", "x86_64-unknown-linux-gnu"],
        "env": {
            "RUSTFLAGS": HOOK_CFG + " -Zsanitizer=address -Cforce-frame-pointers=yes",
            "CC": "clang-14",
            # decNumber deliberately over-reads its BCD buffers by up to 3 bytes (4-byte UBTOUI loads, see
            # decBasic.c / decCommon.c; the repo itself builds it with -Wno-array-bounds). Those reads do not
            # affect any result, so only WRITES of the C code are instrumented; the Rust side keeps full
            # read+write instrumentation (incl. the libc interceptors used on the C buffers). Loop-idiom memcpy
            # recognition is disabled for the C code so that those 4-byte copy loops are not turned into
            # intercepted memcpy calls that read the same 3 slack bytes.
            "CFLAGS": "-fsanitize=address -fno-omit-frame-pointer -g -mllvm -asan-instrument-reads=0 -mllvm -disable-loop-idiom-memcpy",
        },
        "bin": "x86_64-unknown-linux-gnu/debug/dmntk-verif-driver",
        "run_env": {
            "ASAN_OPTIONS": "halt_on_error=1:abort_on_error=1:detect_leaks=0:symbolize=1:detect_stack_use_after_return=0",
            "ASAN_SYMBOLIZER_PATH": "/usr/bin/llvm-symbolizer-14",
        },
    },
    # development aid (tools/coverage.py): source-based coverage of /repo under the checks' workloads
    "cov": {
        "cmd": ["cargo", "+nightly", "build", "--offline"],
        # build scripts and proc macros are instrumented too and write a profile where they run (the crate directory inside
        # /repo) unless told otherwise: keep those out of the repository
        "env": {"RUSTFLAGS": HOOK_CFG + " -Cinstrument-coverage", "LLVM_PROFILE_FILE": "/tmp/verif_cov_build/%p-%m.profraw"},
        "bin": "debug/dmntk-verif-driver",
    },
    # valgrind memcheck over the plain debug binary (same build as dbg): uninitialised reads and heap errors
    # inside decNumber and around the FFI buffers that ASan's red zones do not show. ~25-40x slower than dbg.
    "vg": {
        "cmd": ["cargo", "build", "--offline"],
        "env": {"RUSTFLAGS": HOOK_CFG},
        "bin": "debug/dmntk-verif-driver",
        "dir": "dbg",
        "wrap": ["valgrind", "-q", "--error-exitcode=97", "--leak-check=no", "--track-origins=no", "--num-callers=24", "--suppressions=" + os.path.join(HARNESS, "valgrind.supp")],
    },
    "tsan": {
        "cmd": ["cargo", "+nightly", "build", "--offline", "-Zbuild-std", "--target", "x86_64-unknown-linux-gnu"],
        "env": {
            "RUSTFLAGS": HOOK_CFG + " -Zsanitizer=thread",
            "CC": "clang-14",
            "CFLAGS": "-fsanitize=thread -g",
        },
        "bin": "x86_64-unknown-linux-gnu/debug/dmntk-verif-driver",
        "run_env": {
            "TSAN_OPTIONS": "halt_on_error=0:second_deadlock_stack=1:history_size=4:exitcode=66",
            "TSAN_SYMBOLIZER_PATH": "/usr/bin/llvm-symbolizer-14",
        },
    },
}

_built = {}


def repo_root():
    return os.path.abspath(_ALT_REPO) if _ALT_REPO else "/repo"


def _c_fingerprint():
    """sha1 over feel-number/build.rs and every file under feel-number/decnumber (names and contents)."""
    import hashlib

    h = hashlib.sha1()
    base = os.path.join(repo_root(), "feel-number")
    files = [os.path.join(base, "build.rs")]
    for root, dirs, names in os.walk(os.path.join(base, "decnumber")):
        dirs.sort()
        files += [os.path.join(root, n) for n in sorted(names)]
    for f in files:
        h.update(os.path.relpath(f, base).encode() + b"\0")
        try:
            with open(f, "rb") as fh:
                h.update(fh.read())
        except OSError:
            h.update(b"<missing>")
        h.update(b"\0")
    return h.hexdigest()


def _drop_build_script_output(tdir, package):
    """Removes the build-script run of `package` (its out dir and fingerprints) from a target dir, every profile / triple."""
    for root, dirs, _files in os.walk(tdir):
        base = os.path.basename(root)
        if base in ("build", ".fingerprint"):
            for d in list(dirs):
                if d.startswith(package + "-"):
                    shutil.rmtree(os.path.join(root, d), ignore_errors=True)
            dirs[:] = []
        elif base in ("deps", "incremental", "examples"):
            dirs[:] = []


def build(variant, quiet=True):
    """Builds (incrementally) the driver variant from /repo's current working tree; returns the binary path."""
    if variant in _built:
        return _built[variant]
    spec = VARIANTS[variant]
    tdir = os.path.join(TARGET, spec.get("dir", variant))
    os.makedirs(tdir, exist_ok=True)
    env = _env_base()
    env.update(spec["env"])
    lock_path = os.path.join(TARGET, spec.get("dir", variant) + ".lock")
    stamp_path = os.path.join(TARGET, spec.get("dir", variant) + ".csrc")
    t0 = time.time()
    with open(lock_path, "w") as lock:
        fcntl.flock(lock, fcntl.LOCK_EX)
        # The decNumber C sources are compiled by feel-number/build.rs through the cc crate, which prints
        # rerun-if-env-changed lines; with such lines cargo no longer re-runs a build script because a file of
        # the package changed, so an edited .c / .h file would leave the old static library in place. "Checks
        # rebuild from /repo's current working tree" has to hold for the C code too: the sources are
        # fingerprinted here and the build-script output is discarded when they differ from what was built.
        want = _c_fingerprint()
        try:
            have = open(stamp_path).read().strip()
        except OSError:
            have = None
        if have != want:
            _drop_build_script_output(tdir, "dmntk-feel-number")
        cmd = spec["cmd"] + ["--target-dir", tdir]
        p = subprocess.run(cmd, cwd=HARNESS, env=env, stdout=subprocess.PIPE, stderr=subprocess.STDOUT, text=True)
        if p.returncode == 0:
            with open(stamp_path, "w") as fh:
                fh.write(want)
        fcntl.flock(lock, fcntl.LOCK_UN)
    if p.returncode != 0:
        tail = "\n".join(p.stdout.splitlines()[-40:])
        raise Inconclusive("build of variant %s failed:\n%s" % (variant, tail))
    path = os.path.join(tdir, spec["bin"])
    if not os.path.exists(path):
        raise Inconclusive("driver binary missing after build: " + path)
    if not quiet:
        print("[build] %s ok in %.1fs" % (variant, time.time() - t0), flush=True)
    _built[variant] = path
    return path


def _read_results(path):
    out = []
    eof = False
    try:
        with open(path, "r", encoding="utf-8", errors="replace") as f:
            for line in f:
                if not line.endswith("\n"):
                    break  # partial line: process died while writing
                try:
                    rec = json.loads(line)
                except Exception:
                    break
                if rec.get("eof"):
                    eof = True
                    break
                out.append(rec)
    except FileNotFoundError:
        pass
    return out, eof


class _Shard(threading.Thread):
    def __init__(self, binary, run_env, in_path, n_cases, out_path, case_timeout, tag, stack_mib=None, wrap=None):
        super().__init__(daemon=True)
        self.wrap = list(wrap or [])
        self.binary = binary
        self.run_env = run_env
        self.in_path = in_path
        self.n_cases = n_cases
        self.out_path = out_path
        self.case_timeout = case_timeout
        self.tag = tag
        self.stack_mib = stack_mib
        self.results = {}
        self.error = None
        self.launches = 0

    def run(self):
        try:
            self._run()
        except Exception as e:  # harness failure, not a verdict
            self.error = "%s: %r" % (self.tag, e)

    def _run(self):
        skip = 0
        while skip < self.n_cases:
            part = "%s.part%d" % (self.out_path, self.launches)
            err_path = part + ".stderr"
            if os.path.exists(part):
                os.remove(part)
            self.launches += 1
            env = _env_base()
            env.update(self.run_env)
            cmd = self.wrap + [self.binary, "--in", self.in_path, "--out", part, "--skip", str(skip)]
            if self.stack_mib:
                cmd += ["--stack-mib", str(self.stack_mib)]
            with open(err_path, "wb") as ef:
                p = subprocess.Popen(cmd, env=env, stdout=subprocess.DEVNULL, stderr=ef, cwd=env.get("VERIF_CWD") or None)
                last_size = -1
                last_change = time.time()
                timed_out = False
                while True:
                    try:
                        p.wait(timeout=0.25)
                        break
                    except subprocess.TimeoutExpired:
                        pass
                    try:
                        size = os.path.getsize(part)
                    except OSError:
                        size = 0
                    now = time.time()
                    if size != last_size:
                        last_size = size
                        last_change = now
                    elif now - last_change > self.case_timeout:
                        timed_out = True
                        p.kill()
                        p.wait()
                        break
            recs, eof = _read_results(part)
            for r in recs:
                self.results[r.get("i")] = r
            try:
                with open(err_path, "r", errors="replace") as ef:
                    stderr_text = ef.read()
            except OSError:
                stderr_text = ""
            if eof and p.returncode == 0:
                if stderr_text.strip() and ("Sanitizer" in stderr_text or (self.wrap and "==" in stderr_text)):
                    # sanitizer report that did not stop the process (TSan halt_on_error=0)
                    self.results.setdefault("_sanitizer", []).append(stderr_text[-4000000:])
                break
            if eof and p.returncode != 0:
                # finished all cases but exit code non-zero (TSan exit 66, LSan)
                self.results.setdefault("_sanitizer", []).append(stderr_text[-4000000:])
                break
            done = [r.get("i") for r in recs if isinstance(r.get("i"), int)]
            culprit = (max(done) + 1) if done else skip
            # culprit may be an empty line index; still fine (indices are line numbers)
            rec = {"i": culprit}
            if timed_out:
                rec["timeout"] = {"after_s": self.case_timeout}
            else:
                rc = p.returncode
                sig = -rc if rc is not None and rc < 0 else None
                rec["crash"] = {
                    "returncode": rc,
                    "signal": signal.Signals(sig).name if sig else None,
                    "stderr": stderr_text[-60000:],
                }
            self.results[culprit] = rec
            skip = culprit + 1
            if self.launches > 2000:
                self.error = "%s: too many restarts" % self.tag
                break


def run_cases(variant, cases, workdir, label="run", nshards=None, case_timeout=20.0, stack_mib=None, extra_env=None, confirm_timeouts=True):
    """Runs `cases` (list of dicts) on the driver variant, sharded; returns (results, meta).

    results[k] is the driver's record for cases[k], or {"crash":..} / {"timeout":..} when the
    process died / hung in that case, or {"missing":True} if the harness lost it.
    """
    cov_dir = os.environ.get("VERIF_COVERAGE")
    if cov_dir and variant == "dbg":
        variant = "cov"
    binary = build(variant)
    spec = VARIANTS[variant]
    run_env = dict(spec.get("run_env", {}))
    if variant == "cov":
        run_env["LLVM_PROFILE_FILE"] = os.path.join(cov_dir, "%p-%8m.profraw")
    if extra_env:
        run_env.update(extra_env)
    n = len(cases)
    if n == 0:
        return [], {"sanitizer_reports": [], "launches": 0}
    if nshards is None:
        nshards = NCPU
    nshards = max(1, min(nshards, n))
    d = os.path.join(workdir, "%s.%s" % (label, variant))
    if os.path.isdir(d):
        shutil.rmtree(d)
    os.makedirs(d)
    shards = []
    index_maps = []
    for s in range(nshards):
        idxs = list(range(s, n, nshards))
        in_path = os.path.join(d, "shard%02d.in.jsonl" % s)
        with open(in_path, "w", encoding="utf-8") as f:
            for k in idxs:
                f.write(json.dumps(cases[k], ensure_ascii=True))
                f.write("\n")
        out_path = os.path.join(d, "shard%02d.out" % s)
        sh = _Shard(binary, run_env, in_path, len(idxs), out_path, case_timeout, "%s/%s/shard%d" % (label, variant, s), stack_mib, wrap=spec.get("wrap"))
        shards.append(sh)
        index_maps.append(idxs)
    for sh in shards:
        sh.start()
    for sh in shards:
        sh.join()
    results = [None] * n
    san = []
    launches = 0
    for sh, idxs in zip(shards, index_maps):
        if sh.error:
            raise Inconclusive("harness failure: " + sh.error)
        launches += sh.launches
        for local, k in enumerate(idxs):
            r = sh.results.get(local)
            results[k] = r if r is not None else {"missing": True}
        san.extend(sh.results.get("_sanitizer", []))
    if MIRROR is not None and variant == "dbg" and not label.endswith("-mirror") and not cov_dir and not (extra_env or {}).get("VERIF_CWD"):
        _mirror(cases, results, workdir, label, case_timeout, stack_mib, extra_env)
    slow = [k for k, r in enumerate(results) if isinstance(r, dict) and "timeout" in r]
    if slow and confirm_timeouts:
        # a wall-clock timeout on a loaded machine is not a verdict: every timed-out case is run
        # again alone with a generous limit; only a case that stays silent there is reported as hung
        again, m2 = run_cases(variant, [cases[k] for k in slow], workdir, label=label + "-confirm", nshards=nshards, case_timeout=min(max(case_timeout * 5, 120.0), 600.0), stack_mib=stack_mib, extra_env=extra_env, confirm_timeouts=False)
        for k, r in zip(slow, again):
            if isinstance(r, dict) and "timeout" in r:
                r["timeout"]["first_after_s"] = case_timeout
            elif isinstance(r, dict):
                r["slow_first_attempt_s"] = case_timeout
            results[k] = r
        san.extend(m2["sanitizer_reports"])
        launches += m2["launches"]
    return results, {"sanitizer_reports": san, "launches": launches, "dir": d, "timeouts_rechecked": len(slow)}


# ---- release-build mirror (differential monitor) -----------------------------------------------------------------
# The value oracles judge what the DEBUG build computes. Code may behave differently when built for release
# (`cfg!(debug_assertions)`, `debug_assert!` guarding a fast path, wrapping instead of checked arithmetic, an optimiser-
# exposed dependence on evaluation order or uninitialised data): for the checks that ask for it (`check` sets MIRROR), every
# k-th batch of every debug run is replayed on the release build and the two records must be identical. A record that
# holds a panic, a crash or a timeout on either side is left out (totality on both builds is C05 / C12 / C19's subject).
MIRROR = None  # {"stride": k, "max_cases": n}
MIRROR_DIFFS = []  # (label, case, debug record, release record, first differing path)
MIRROR_STATS = {"cases_mirrored": 0, "records_compared": 0, "skipped_crash_or_panic": 0}
_VOLATILE = ("ms", "wall", "wall_s", "elapsed_ms", "pid")
import re as _re_mod

_CLOCK = _re_mod.compile(r"\b(now|today)\s*\(")
ALT_ENV = {"TZ": "Australia/Lord_Howe", "LC_ALL": "tr_TR.UTF-8", "LANG": "tr_TR.UTF-8", "LANGUAGE": "tr", "VERIF_CWD": "/"}


def _strip_volatile(x):
    if isinstance(x, dict):
        return {k: _strip_volatile(v) for k, v in x.items() if k not in _VOLATILE}
    if isinstance(x, list):
        return [_strip_volatile(v) for v in x]
    return x


def _has_fault(x):
    if isinstance(x, dict):
        return any(k in ("panic", "crash", "timeout", "missing", "harness_error") for k in x) or any(_has_fault(v) for v in x.values())
    if isinstance(x, list):
        return any(_has_fault(v) for v in x)
    return False


def _first_diff(a, b, path=""):
    if type(a) != type(b):
        return path or "."
    if isinstance(a, dict):
        for k in sorted(set(a) | set(b)):
            if k not in a or k not in b:
                return "%s/%s" % (path, k)
            d = _first_diff(a[k], b[k], "%s/%s" % (path, k))
            if d:
                return d
        return None
    if isinstance(a, list):
        if len(a) != len(b):
            return path + "/#len"
        for i, (x, y) in enumerate(zip(a, b)):
            d = _first_diff(x, y, "%s/%d" % (path, i))
            if d:
                return d
        return None
    return None if a == b else (path or ".")


def _spool(rec):
    """checks that fork worker processes (C12, C19) mirror inside them: what is found goes through a file"""
    path = MIRROR.get("spool")
    if path:
        with open(path, "a", encoding="utf-8") as f:
            f.write(json.dumps(rec) + "\n")


def _mirror(cases, results, workdir, label, case_timeout, stack_mib, extra_env):
    old = sys.getrecursionlimit()
    sys.setrecursionlimit(max(old, 20000))  # C05 / C12 produce records nested hundreds of levels deep
    try:
        _mirror_(cases, results, workdir, label, case_timeout, stack_mib, extra_env)
    except RecursionError:
        MIRROR_STATS["skipped_too_deep"] = MIRROR_STATS.get("skipped_too_deep", 0) + 1
    finally:
        sys.setrecursionlimit(old)


def _mirror_(cases, results, workdir, label, case_timeout, stack_mib, extra_env):
    stride = max(1, int(MIRROR.get("stride", 5)))
    offset = int(MIRROR.get("offset", 0)) % stride
    # cases that read the clock (`now()`, `today()`) legitimately give another record every time they run
    idx = [k for k in range(len(cases)) if k % stride == offset and isinstance(results[k], dict) and not _has_fault(results[k]) and not _CLOCK.search(json.dumps(cases[k]))]
    idx = idx[: int(MIRROR.get("max_cases", 400))]
    if not idx:
        return
    try:
        build("rel")
    except Inconclusive:
        MIRROR_STATS["release_build_unavailable"] = True
        return
    replicas = [("rel", "rel", extra_env)] if MIRROR.get("release", True) else []
    if MIRROR.get("alone", True):
        # the same DEBUG build, every mirrored case ALONE in a process of its own: the shards of the judged run are long-lived
        # (one worker thread serves hundreds of cases), so whatever the code under test keeps per thread or per process - a
        # memo, a counter, a pool, an id that is reused - has a history there and none here; the records must be identical
        replicas.append(("alone", "dbg", extra_env))
    if MIRROR.get("environment") and label not in MIRROR.get("environment_skip_labels", ()):
        # the same DEBUG build in another process environment: a time zone with a 30-minute daylight-saving shift and an
        # odd base offset, a locale with unusual case mapping, another working directory. Nothing these checks generate reads
        # the clock, and none of them mixes date-times with and without a zone (the one place where the repository
        # consults the process's time zone), so the records must be identical.
        env2 = dict(extra_env or {})
        env2.update(ALT_ENV)
        replicas.append(("env", "dbg", env2))
    for tag, variant, env in replicas:
        sel = idx
        if tag == "alone":
            sel = idx[: int(MIRROR.get("max_alone", 160))]
            again = []
            for a in range(0, len(sel), NCPU):
                part = sel[a : a + NCPU]
                rs, _ = run_cases(variant, [cases[k] for k in part], workdir, label=label + "-alone-mirror", nshards=len(part), case_timeout=max(case_timeout, 60.0), stack_mib=stack_mib, extra_env=env)
                again += rs
        else:
            again, _ = run_cases(variant, [cases[k] for k in sel], workdir, label=label + "-" + tag + "-mirror", case_timeout=max(case_timeout, 60.0), stack_mib=stack_mib, extra_env=env)
        key = {"rel": "cases_mirrored", "env": "cases_mirrored_in_another_environment", "alone": "cases_mirrored_alone_in_a_fresh_process"}[tag]
        MIRROR_STATS[key] = MIRROR_STATS.get(key, 0) + len(sel)
        for k, r in zip(sel, again):
            if not isinstance(r, dict) or _has_fault(r):
                MIRROR_STATS["skipped_crash_or_panic"] += 1
                continue
            a, b = _strip_volatile(results[k]), _strip_volatile(r)
            a.pop("i", None)  # position of the case within its shard
            b.pop("i", None)
            MIRROR_STATS["records_compared"] += 1
            d = _first_diff(a, b)
            if d and len(MIRROR_DIFFS) < 200:
                MIRROR_DIFFS.append((label, cases[k], a, b, d, tag))
                _spool({"diff": [label, cases[k], a, b, d, tag]})
        _spool({"stats": {key: len(sel)}})


def run_single(variant, case, workdir, label="single", case_timeout=300.0, stack_mib=None):
    rs, meta = run_cases(variant, [case], workdir, label=label, nshards=1, case_timeout=case_timeout, stack_mib=stack_mib)
    return rs[0], meta


def memcheck_replay(rep, cases, label="memcheck", case_timeout=600.0, nshards=None):
    """Replays `cases` on the plain debug driver under valgrind memcheck (variant `vg`). Only memcheck's own
    reports are judged here (values were judged on dbg): every distinct report is a violation
    `memcheck:<kind>:<first dmntk/dec frame>`. A missing valgrind or a watchdog is a NOTE, never a verdict."""
    import re as _re

    if shutil.which("valgrind") is None:
        print("NOTE property=%s valgrind not installed, memcheck replay skipped" % rep.prop_id)
        rep.extra["memcheck"] = "valgrind unavailable"
        return
    results, meta = run_cases("vg", cases, rep.workdir, label=label, case_timeout=case_timeout, nshards=nshards)
    done = sum(1 for r in results if isinstance(r, dict) and not ("timeout" in r or "crash" in r or r.get("missing")))
    sigs = {}
    for text in meta["sanitizer_reports"]:
        for block in _re.split(r"\n(?===\d+== \S)", text):
            m = _re.search(r"==\d+== (Invalid \w+|Conditional jump|Use of uninitialised|Syscall param|Mismatched free|Invalid free|Source and destination overlap|Argument .* fishy)", block)
            if not m:
                continue
            frames = _re.findall(r"(?:at|by) 0x[0-9A-F]+: (\S+)", block)
            own = [f for f in frames if f.startswith("dec") or "dmntk" in f]
            sig = "memcheck:%s:%s" % (m.group(1).replace(" ", "-"), (own[0] if own else (frames[0] if frames else "?"))[:80])
            sigs.setdefault(sig, block[:3000])
    if meta["sanitizer_reports"] and not sigs:
        # valgrind ended with its error exit code or wrote "==pid==" lines, but no report of a kind listed above was
        # recognised: never drop that silently
        text = "\n".join(meta["sanitizer_reports"])
        if _re.search(r"ERROR SUMMARY: [1-9]|==\d+== (?!Memcheck|Copyright|Using|Command|For lists|$)\S", text):
            sigs["memcheck:unclassified-report"] = text[:3000]
    for sig, block in sigs.items():
        rep.violation(sig, block, {"variant": "vg", "case": cases[0] if cases else None})
    for r in results:
        if isinstance(r, dict) and "crash" in r and "== " in (r["crash"].get("stderr") or ""):
            rep.violation("memcheck:process-died", r["crash"]["stderr"][-2000:], {"variant": "vg"})
    rep.extra["memcheck"] = {"cases_replayed": len(cases), "cases_completed": done, "distinct_reports": len(sigs)}
    if done < len(cases):
        print("NOTE property=%s memcheck replay completed %d of %d cases" % (rep.prop_id, done, len(cases)))
