"""libFuzzer (cargo-fuzz, ASan build) as a coverage-guided INPUT GENERATOR for the totality properties.

The fuzz targets live in harness/fuzz (patched to /repo like the driver). A crash of a fuzz process is
only a candidate: the caller replays every artifact through the ordinary driver (its build variants,
its 8 MiB worker stack, its panic hook) and that replay is the verdict; artifacts that do not reproduce
there are counted in the evidence and never become violations.
"""
import hashlib
import os
import re
import shutil
import subprocess
import time

import runner

SECONDS = int(os.environ.get("VERIF_FUZZ_SECONDS") or 300)  # length of one libFuzzer slot (development aid: shorten)
FUZZ_DIR = os.path.join(runner.HARNESS, "fuzz")
TARGET_DIR = os.path.join(runner.TARGET, "fuzz")


def build(target):
    """-> path of the fuzz binary; raises runner.Inconclusive when it cannot be built"""
    env = dict(os.environ)
    env["CARGO_NET_OFFLINE"] = "true"
    env.pop("RUSTFLAGS", None)
    cmd = ["cargo", "+nightly", "fuzz", "build", target, "--target-dir", TARGET_DIR]
    try:
        p = subprocess.run(cmd, cwd=os.path.dirname(FUZZ_DIR), env=env, stdout=subprocess.PIPE, stderr=subprocess.STDOUT, text=True, timeout=1800)
    except Exception as e:
        raise runner.Inconclusive("cargo fuzz build failed to run: %r" % (e,))
    if p.returncode != 0:
        raise runner.Inconclusive("cargo fuzz build %s failed: %s" % (target, p.stdout[-1500:]))
    path = os.path.join(TARGET_DIR, "x86_64-unknown-linux-gnu", "release", target)
    if not os.path.exists(path):
        raise runner.Inconclusive("fuzz binary not found at %s" % path)
    return path


def run(target, seeds, seconds, workdir, max_len, seed=1, forks=16, dictionary=None, keep_corpus=20000):
    """Runs the fuzz target for `seconds`; `seeds` is an iterable of bytes objects for the initial corpus.
    -> (artifacts: list of bytes (crashes only), stats dict); stats["corpus"] holds up to `keep_corpus` inputs of the final corpus"""
    binary = build(target)
    d = os.path.join(workdir, "fuzz_" + target)
    if os.path.isdir(d):
        shutil.rmtree(d)
    corpus = os.path.join(d, "corpus")
    arts = os.path.join(d, "artifacts")
    os.makedirs(corpus)
    os.makedirs(arts)
    n_seed = 0
    for s in seeds:
        if not s or len(s) > max_len:
            continue
        with open(os.path.join(corpus, hashlib.sha1(s).hexdigest()), "wb") as f:
            f.write(s)
        n_seed += 1
    cmd = [binary, corpus, "-artifact_prefix=" + arts + "/", "-max_total_time=%d" % seconds, "-timeout=10", "-rss_limit_mb=4096", "-max_len=%d" % max_len,
           "-fork=%d" % forks, "-ignore_crashes=1", "-ignore_timeouts=1", "-ignore_ooms=1", "-seed=%d" % (seed & 0x7FFFFFFF), "-print_final_stats=1"]
    if dictionary:
        dp = os.path.join(d, "dict.txt")
        with open(dp, "w", encoding="utf-8") as f:
            for w in dictionary:
                f.write('"%s"\n' % "".join(c if 32 <= ord(c) < 127 and c not in '"\\' else "\\x%02x" % b for c in w for b in c.encode("utf-8")))
        cmd.append("-dict=" + dp)
    env = dict(os.environ)
    env["ASAN_OPTIONS"] = "detect_leaks=0:abort_on_error=1:symbolize=1:allocator_may_return_null=1"
    env["RUST_BACKTRACE"] = "0"
    t0 = time.time()
    log_path = os.path.join(d, "fuzz.log")
    with open(log_path, "wb") as lf:
        try:
            p = subprocess.run(cmd, cwd=d, env=env, stdout=lf, stderr=subprocess.STDOUT, timeout=seconds + 600)
            rc = p.returncode
        except subprocess.TimeoutExpired:
            rc = "watchdog"
    wall = time.time() - t0
    with open(log_path, "r", errors="replace") as f:
        log = f.read()
    execs = [int(x) for x in re.findall(r"#(\d+): cov:", log)]
    covs = [int(x) for x in re.findall(r"cov: (\d+)", log)]
    crashes, others = [], {"timeout": 0, "oom": 0, "slow-unit": 0, "leak": 0}
    for name in sorted(os.listdir(arts)):
        path = os.path.join(arts, name)
        kind = name.split("-")[0]
        if kind == "crash":
            with open(path, "rb") as f:
                crashes.append(f.read())
        elif kind in others or name.startswith("slow-unit"):
            others["slow-unit" if name.startswith("slow-unit") else kind] += 1
    final = []
    for name in sorted(os.listdir(corpus))[:keep_corpus]:
        try:
            with open(os.path.join(corpus, name), "rb") as f:
                final.append(f.read())
        except OSError:
            pass
    stats = {
        "corpus": final,
        "target": target,
        "seconds_requested": seconds,
        "wall_s": round(wall, 1),
        "returncode": rc,
        "seed_inputs": n_seed,
        "executions": max(execs) if execs else 0,
        "coverage_edges": max(covs) if covs else 0,
        "final_corpus_files": len(os.listdir(corpus)),
        "crash_artifacts": len(crashes),
        "other_artifacts": others,
        "log_tail": log[-600:],
    }
    return crashes, stats
