"""Serialisation variants of one DMN document: the same XML infoset written differently (C03, C04, C11, C17, C18).

A model means what its elements, attributes and character data say, not how they are spelled: namespace prefixes or a default
namespace (declared on the root or again on inner elements), the order of attributes, single or double quotes, character
references and CDATA sections for character data, empty-element tags or start/end pairs, comments, processing instructions and
white space between the elements of element-only content, the XML declaration, a byte-order mark. `vary` re-writes a document
produced by the generators in a seeded random style; the value oracles then judge the implementation on it exactly as on the
plain spelling. Stdlib only.

Deliberately NOT varied (the DMN loaders read the first text child of <text>; nothing in the properties rests on more): comments
or processing instructions INSIDE character data, character data split into several CDATA / text runs.
"""
import xml.etree.ElementTree as ET

DMN_PREFIXES = ["dmn", "semantic", "d", "ns0", "dmn13"]


def _split(tag):
    if tag.startswith("{"):
        ns, local = tag[1:].split("}", 1)
        return ns, local
    return None, tag


def _esc_attr(v, q, rng, refs):
    out = []
    for ch in v:
        if ch == "&":
            out.append("&amp;")
        elif ch == "<":
            out.append("&lt;")
        elif ch == q:
            out.append("&quot;" if q == '"' else "&apos;")
        elif ch in "\t\n\r":
            out.append("&#%d;" % ord(ch))  # literal white space in an attribute value is normalised by XML itself
        elif refs and ch != " " and rng.random() < 0.08:
            out.append(rng.choice(["&#%d;", "&#x%x;", "&#x%X;"]) % ord(ch))
        else:
            out.append(ch)
    return "".join(out)


def _esc_text(t, rng, refs):
    out = []
    for ch in t:
        if ch == "&":
            out.append("&amp;")
        elif ch == "<":
            out.append("&lt;")
        elif ch == ">":
            out.append(rng.choice(["&gt;", ">"]) if not out or out[-1] != "]" else "&gt;")
        elif ch == "\r":
            out.append("&#13;")
        elif refs and rng.random() < 0.06:
            out.append(rng.choice(["&#%d;", "&#x%x;"]) % ord(ch))
        else:
            out.append(ch)
    return "".join(out)


def vary(xml, rng):
    """returns (text, style description)"""
    root = ET.fromstring(xml.encode("utf-8") if isinstance(xml, str) else xml)
    ns_mode = rng.choice(["default", "prefixed", "prefixed", "mixed", "redeclare"])
    prefix = rng.choice(DMN_PREFIXES)
    quote = rng.choice(['"', "'", "mix"])
    shuffle = rng.random() < 0.7
    text_mode = rng.choice(["plain", "cdata", "refs", "mix"])
    empty_mode = rng.choice(["short", "pair", "mix"])
    between = rng.choice(["none", "newlines", "comments", "pi", "all"])
    attr_refs = rng.random() < 0.4
    root_ns = _split(root.tag)[0]
    other = {}  # namespace -> prefix for everything that is not the root's namespace

    def pfx_for(ns):
        if ns not in other:
            other[ns] = "x%d" % len(other)
        return other[ns]

    def filler():
        parts = []
        if between in ("newlines", "all") and rng.random() < 0.7:
            parts.append(rng.choice(["\n", "\n  ", "\r\n\t", " ", "\n\n"]))
        if between in ("comments", "all") and rng.random() < 0.3:
            parts.append(rng.choice(["<!-- note -->", "<!---->", "<!-- <decision name=\"ghost\"/> -->", "<!-- a - b -->"]))
        if between in ("pi", "all") and rng.random() < 0.15:
            parts.append(rng.choice(["<?tool keep?>", "<?x-layout indent=\"2\"?>"]))
        if between in ("newlines", "all") and rng.random() < 0.5:
            parts.append(rng.choice(["\n", " ", "\n    "]))
        return "".join(parts)

    def ser(e, depth, inherited_default):
        ns, local = _split(e.tag)
        decl = []
        if ns == root_ns and ns is not None:
            if ns_mode == "default":
                name, default_here = local, True
            elif ns_mode == "prefixed":
                name, default_here = prefix + ":" + local, False
            elif ns_mode == "mixed":
                use_p = rng.random() < 0.5
                name, default_here = (prefix + ":" + local if use_p else local), not use_p
            else:  # redeclare: the default namespace is declared again on some inner elements
                name, default_here = local, True
                if depth > 0 and rng.random() < 0.3:
                    decl.append(("xmlns", ns))
            if depth == 0:
                if ns_mode in ("default", "redeclare", "mixed"):
                    decl.append(("xmlns", ns))
                if ns_mode in ("prefixed", "mixed"):
                    decl.append(("xmlns:" + prefix, ns))
        elif ns is None:
            name = local
            if inherited_default and ns_mode != "prefixed":
                decl.append(("xmlns", ""))  # element in no namespace below a default namespace
        else:
            name = pfx_for(ns) + ":" + local
            decl.append(("xmlns:" + pfx_for(ns), ns))
        attrs = []
        for k, v in e.attrib.items():
            ans, alocal = _split(k)
            if ans is None:
                attrs.append((alocal, v))
            elif ans == "http://www.w3.org/XML/1998/namespace":
                attrs.append(("xml:" + alocal, v))
            else:
                attrs.append((pfx_for(ans) + ":" + alocal, v))
                decl.append(("xmlns:" + pfx_for(ans), ans))
        seen = set()
        decl = [d for d in decl if not (d[0] in seen or seen.add(d[0]))]
        allattrs = decl + attrs
        if shuffle:
            rng.shuffle(allattrs)
        parts = ["<" + name]
        for k, v in allattrs:
            q = quote if quote != "mix" else rng.choice(['"', "'"])
            parts.append("%s%s%s=%s%s%s%s" % (rng.choice([" ", " ", "\n   ", "  "]), k, rng.choice(["", "", " "]), rng.choice(["", "", " "]), q, _esc_attr(v, q, rng, attr_refs and not k.startswith("xmlns")), q))
        children = list(e)
        text = e.text or ""
        if not children and text == "":
            mode = empty_mode if empty_mode != "mix" else rng.choice(["short", "pair"])
            parts.append(rng.choice(["/>", " />"]) if mode == "short" else "></%s>" % name)
            return "".join(parts)
        parts.append(rng.choice([">", ">", " >"]))
        if not children:
            mode = text_mode if text_mode != "mix" else rng.choice(["plain", "cdata", "refs"])
            if mode == "cdata" and "]]>" not in text:
                parts.append("<![CDATA[" + text + "]]>")
            else:
                parts.append(_esc_text(text, rng, mode == "refs"))
        else:
            element_only = text.strip() == "" and all((c.tail or "").strip() == "" for c in children)
            if not element_only:
                parts.append(_esc_text(text, rng, False))
            for c in children:
                if element_only:
                    parts.append(filler())
                parts.append(ser(c, depth + 1, True))
                if not element_only:
                    parts.append(_esc_text(c.tail or "", rng, False))
            if element_only:
                parts.append(filler())
        parts.append("</%s%s>" % (name, rng.choice(["", "", " "])))
        return "".join(parts)

    body = ser(root, 0, False)
    decl = rng.choice(['<?xml version="1.0" encoding="UTF-8"?>', "<?xml version='1.0' encoding='utf-8'?>", '<?xml version="1.0" encoding="UTF-8" standalone="yes"?>', '<?xml version="1.0"?>', ""])
    lead = rng.choice(["", "", "\n", "<!-- generated -->\n"]) if decl else rng.choice(["", "<!-- generated -->"])
    out = decl + (rng.choice(["\n", "", "\r\n"]) if decl else "") + lead + body + rng.choice(["", "\n", "\n<!-- end -->\n"])
    style = "ns=%s quote=%s shuffle=%s text=%s empty=%s between=%s attr_refs=%s decl=%s" % (ns_mode, quote, shuffle, text_mode, empty_mode, between, attr_refs, bool(decl))
    return out, style


def same_infoset(a, b):
    """sanity check used by the self-test: both documents parse to the same tree (tags, attributes, text of leaves)"""
    def canon(e):
        kids = list(e)
        return (e.tag, tuple(sorted(e.attrib.items())), (e.text or "") if not kids else "", tuple(canon(c) for c in kids))
    return canon(ET.fromstring(a.encode("utf-8"))) == canon(ET.fromstring(b.encode("utf-8")))
