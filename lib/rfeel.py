"""R-FEEL: reference interpreter of the FEEL core fragment (DESIGN.md §2) over a tuple AST, plus the
renderer of that AST to FEEL text and the comparison with the implementation's value JSON.

Values: None | bool | Decimal | str | list | dict (context) | ('range', lo, lc, hi, rc) | Fn
The interpreter raises Undecided wherever DMN 1.3 leaves the result open or contested (see each
site); an undecided case can never become a violation.
"""
import decimal
from decimal import Decimal

CTX = decimal.Context(prec=34, rounding=decimal.ROUND_HALF_EVEN, Emax=6144, Emin=-6143, clamp=1, traps=[])


class Undecided(Exception):
    pass


# diagnostic events of the last evaluation (reset by the caller): e.g. "empty-domain:for"
EVENTS = set()


class Fn:
    __slots__ = ("params", "body", "env")

    def __init__(self, params, body, env):
        self.params = params
        self.body = body
        self.env = env


def kind(v):
    if v is None:
        return "null"
    if isinstance(v, bool):
        return "boolean"
    if isinstance(v, Decimal):
        return "number"
    if isinstance(v, str):
        return "string"
    if isinstance(v, list):
        return "list"
    if isinstance(v, dict):
        return "context"
    if isinstance(v, tuple) and v and v[0] == "range":
        return "range"
    if isinstance(v, Fn):
        return "function"
    return "other"


# ---------------------------------------------------------------------------------------------
# equality / ordering (DMN 1.3 §10.3.2.15, Table 53)
# ---------------------------------------------------------------------------------------------
def feq(a, b):
    ka, kb = kind(a), kind(b)
    if ka in ("function", "range") or kb in ("function", "range"):
        raise Undecided("equality involving a %s" % (ka if ka in ("function", "range") else kb))
    if ka == "null" and kb == "null":
        return True
    if ka == "null" or kb == "null":
        return False
    if ka != kb:
        return None
    if ka in ("number", "string", "boolean"):
        return a == b
    if ka in ("function", "range"):
        raise Undecided("equality of %s" % ka)
    if ka == "list":
        if len(a) != len(b):
            return False
        rs = [feq(x, y) for x, y in zip(a, b)]
        if any(r is False for r in rs):
            return False
        if any(r is None for r in rs):
            raise Undecided("list equality with incomparable elements")
        return True
    if ka == "context":
        if set(a.keys()) != set(b.keys()):
            return False
        rs = [feq(a[k], b[k]) for k in a]
        if any(r is None for r in rs):
            raise Undecided("context equality with incomparable entries")
        return all(rs)
    raise Undecided("equality of %s" % ka)


def flt(a, b):
    """a < b for numbers and strings, None otherwise."""
    ka, kb = kind(a), kind(b)
    if ka != kb or ka not in ("number", "string"):
        return None
    return a < b


def and3(a, b):
    a = a if isinstance(a, bool) else None
    b = b if isinstance(b, bool) else None
    if a is False or b is False:
        return False
    if a is True and b is True:
        return True
    return None


def or3(a, b):
    a = a if isinstance(a, bool) else None
    b = b if isinstance(b, bool) else None
    if a is True or b is True:
        return True
    if a is False and b is False:
        return False
    return None


def in_range(x, r):
    _, lo, lc, hi, rc = r
    k = kind(x)
    if k not in ("number", "string") or kind(lo) != k or kind(hi) != k:
        return None
    lo_ok = x >= lo if lc else x > lo
    hi_ok = x <= hi if rc else x < hi
    return lo_ok and hi_ok


def num(text):
    return CTX.create_decimal(text)


def arith(op, a, b):
    if a is None or b is None:
        return None
    ka, kb = kind(a), kind(b)
    if op == "add" and ka == "string" and kb == "string":
        return a + b
    if ka != "number" or kb != "number":
        return None
    CTX.clear_flags()
    if op == "add":
        r = CTX.add(a, b)
    elif op == "sub":
        r = CTX.subtract(a, b)
    elif op == "mul":
        r = CTX.multiply(a, b)
    elif op == "div":
        if b == 0:
            return None
        r = CTX.divide(a, b)
    elif op == "exp":
        try:
            r = CTX.power(a, b)
        except Exception:
            raise Undecided("power raised")
        if CTX.flags[decimal.Inexact] or CTX.flags[decimal.InvalidOperation]:
            raise Undecided("inexact or invalid power")
    else:
        raise Undecided("arith op " + op)
    if CTX.flags[decimal.Overflow] or CTX.flags[decimal.Underflow] or CTX.flags[decimal.InvalidOperation] or not r.is_finite():
        raise Undecided("out of range arithmetic belongs to C02")
    return r


# ---------------------------------------------------------------------------------------------
# interpreter
# ---------------------------------------------------------------------------------------------
def lookup(env, name):
    for frame in reversed(env):
        if name in frame:
            return frame[name]
    return None


def ev(e, env):
    t = e[0]
    if t == "num":
        return num(e[1])
    if t == "str":
        return e[1]
    if t == "bool":
        return e[1]
    if t == "null":
        return None
    if t == "name":
        return lookup(env, e[1])
    if t == "paren":
        return ev(e[1], env)
    if t == "neg":
        v = ev(e[1], env)
        if kind(v) == "number":
            return CTX.minus(v)
        return None
    if t in ("add", "sub", "mul", "div", "exp"):
        return arith(t, ev(e[1], env), ev(e[2], env))
    if t == "cmp":
        op = e[1]
        a, b = ev(e[2], env), ev(e[3], env)
        if op == "=":
            return feq(a, b)
        if op == "!=":
            r = feq(a, b)
            return None if r is None else (not r)
        if op == "<":
            return flt(a, b)
        if op == ">":
            return flt(b, a)
        if op == "<=":
            r = flt(b, a)
            return None if r is None else (not r)
        if op == ">=":
            r = flt(a, b)
            return None if r is None else (not r)
        raise Undecided("cmp op")
    if t == "and":
        return and3(ev(e[1], env), ev(e[2], env))
    if t == "or":
        return or3(ev(e[1], env), ev(e[2], env))
    if t == "if":
        c = ev(e[1], env)
        if c is True:
            return ev(e[2], env)
        if c is False or c is None:
            return ev(e[3], env)
        raise Undecided("non-boolean, non-null if condition")
    if t == "between":
        x, a, b = ev(e[1], env), ev(e[2], env), ev(e[3], env)
        k = kind(x)
        if k not in ("number", "string") or kind(a) != k or kind(b) != k:
            return None
        return a <= x <= b
    if t == "range":
        return ("range", ev(e[1], env), e[2], ev(e[3], env), e[4])
    if t == "in":
        x = ev(e[1], env)
        r = ev(e[2], env)
        return in_value(x, r)
    if t == "in_ut":
        x = ev(e[1], env)
        res = False
        for ut in e[2]:
            m = unary_test(x, ut, env)
            if m is True:
                res = True
            elif m is None:
                raise Undecided("unary test yields null inside a disjunction")
        return res
    if t == "list":
        return [ev(x, env) for x in e[1]]
    if t == "ctx":
        frame = {}
        env2 = env + [frame]
        for k, ve in e[1]:
            if k in frame:
                raise Undecided("duplicate context key")
            frame[k] = ev(ve, env2)
        return dict(frame)
    if t == "path":
        v = ev(e[1], env)
        name = e[2]
        if isinstance(v, dict):
            return v.get(name)
        if isinstance(v, list):
            out = []
            for item in v:
                if not isinstance(item, dict) or name not in item:
                    raise Undecided("path over list whose elements lack the entry")
                out.append(item[name])
            return out
        if v is None:
            return None
        if kind(v) in ("number", "string", "boolean"):
            return None
        raise Undecided("path on " + kind(v))
    if t == "filter":
        return ev_filter(e, env)
    if t == "for":
        return ev_for(e, env)
    if t in ("some", "every"):
        return ev_quant(e, env)
    if t == "fundef":
        return Fn(list(e[1]), e[2], list(env))
    if t == "after_external":
        # [function(params) external {...}, expr][2]: the value of expr; the parameters of the external function are not in its scope
        return ev(e[2], env)
    if t == "call":
        f = ev(e[1], env)
        args = [ev(a, env) for a in e[2]]
        if not isinstance(f, Fn):
            if f is None or kind(f) in ("number", "string", "boolean", "list", "context"):
                return None
            raise Undecided("call of " + kind(f))
        if len(args) != len(f.params):
            return None
        return ev(f.body, f.env + [dict(zip(f.params, args))])
    if t == "callnamed":
        f = ev(e[1], env)
        args = [(n, ev(a, env)) for n, a in e[2]]
        if not isinstance(f, Fn):
            if f is None or kind(f) in ("number", "string", "boolean", "list", "context"):
                return None
            raise Undecided("call of " + kind(f))
        names = [n for n, _ in args]
        if len(set(names)) != len(names):
            raise Undecided("duplicate named argument")
        if set(names) != set(f.params):
            return None
        return ev(f.body, f.env + [dict(args)])
    raise Undecided("construct " + str(t))


def unary_test(x, ut, env):
    t = ut[0]
    if t == "ut_val":
        v = ev(ut[1], env)
        if isinstance(v, tuple) and v[0] == "range":
            return in_range(x, v)
        if v is None or isinstance(v, list):
            raise Undecided("unary test against null or a list")
        r = feq(x, v)
        if r is None:
            raise Undecided("unary test equality between different kinds")
        return r
    if t == "ut_cmp":
        v = ev(ut[2], env)
        op = ut[1]
        if op == "<":
            return flt(x, v)
        if op == ">":
            return flt(v, x)
        if op == "<=":
            r = flt(v, x)
            return None if r is None else (not r)
        if op == ">=":
            r = flt(x, v)
            return None if r is None else (not r)
    raise Undecided("unary test " + str(t))


def in_value(x, r):
    k = kind(r)
    if k == "range":
        return in_range(x, r)
    if k == "list":
        if isinstance(x, list):
            raise Undecided("list in list")
        res = False
        for item in r:
            ki = kind(item)
            if ki == "range":
                m = in_range(x, item)
            elif ki == "list":
                m = in_value(x, item)
            elif ki in ("number", "string", "boolean", "context"):
                m = feq(x, item)
                if m is None:
                    raise Undecided("in-list equality between different kinds")
            else:
                raise Undecided("in-list item of kind " + ki)
            if m is True:
                res = True
            elif m is None:
                raise Undecided("null inside in-list")
        return res
    if k in ("number", "string", "boolean", "context"):
        m = feq(x, r)
        if m is None:
            raise Undecided("in-value equality between different kinds")
        return m
    raise Undecided("in with right operand " + k)


def ev_filter(e, env):
    v = ev(e[1], env)
    pred = e[2]
    mode = e[3]  # 'index' | 'pred'
    if v is None:
        return None
    if not isinstance(v, list):
        if mode == "index":
            i = ev(pred, env)
            if kind(i) == "number" and i == 1 and kind(v) in ("number", "string", "boolean", "context"):
                return v
        raise Undecided("filter on a non-list")
    if mode == "index":
        i = ev(pred, env)
        if kind(i) != "number":
            raise Undecided("index expression is not a number")
        if i != i.to_integral_value():
            return None
        n = int(i)
        if n > 0 and n <= len(v):
            return v[n - 1]
        if n < 0 and -n <= len(v):
            return v[len(v) + n]
        return None
    try:
        outer = ev(pred, env)
    except Undecided:
        if not v:
            # nothing will evaluate the filter expression per item: what it is (an index? a predicate?) stays unknown
            raise
        outer = None
    if kind(outer) == "number":
        raise Undecided("filter expression that is a number outside the item scope")
    if outer is not None and not isinstance(outer, bool):
        # e.g. `[][[100]]`: a list / string / context as filter expression is outside the decided fragment whatever the list holds
        raise Undecided("filter expression that is neither boolean nor null outside the item scope")
    kept = []
    for item in v:
        frames = list(env)
        if isinstance(item, dict):
            frames.append(dict(item))
            if "item" not in item:
                frames.append({"item": item})
        else:
            frames.append({"item": item})
        r = ev(pred, frames)
        if kind(r) == "number":
            raise Undecided("numeric filter predicate depending on item")
        if r is True:
            kept.append(item)
    if len(kept) == 1:
        raise Undecided("filter keeping exactly one element (list vs. singleton is contested)")
    return kept


def domain_values(d, env):
    if d[0] == "dom_list":
        v = ev(d[1], env)
        if not isinstance(v, list):
            raise Undecided("iteration over a non-list")
        return v
    lo, hi = ev(d[1], env), ev(d[2], env)
    if kind(lo) != "number" or kind(hi) != "number" or lo != lo.to_integral_value() or hi != hi.to_integral_value():
        raise Undecided("range bounds not integers")
    lo, hi = int(lo), int(hi)
    if abs(hi - lo) > 5000:
        raise Undecided("huge range")
    step = 1 if lo <= hi else -1
    return [Decimal(k) for k in range(lo, hi + step, step)]


def product(domains):
    if not domains:
        yield []
        return
    first = domains[0]
    for x in first:
        for rest in product(domains[1:]):
            yield [x] + rest


def ev_for(e, env):
    names = [n for n, _ in e[1]]
    domains = [domain_values(d, env) for _, d in e[1]]
    if any(len(d) == 0 for d in domains) and any(len(d) > 0 for d in domains):
        EVENTS.add("empty-domain:for")
    out = []
    for combo in product(domains):
        out.append(ev(e[2], env + [dict(zip(names, combo))]))
    return out


def ev_quant(e, env):
    names = [n for n, _ in e[1]]
    domains = []
    for _, d in e[1]:
        v = ev(d, env)
        if not isinstance(v, list):
            raise Undecided("quantifier over a non-list")
        domains.append(v)
    if any(len(d) == 0 for d in domains) and any(len(d) > 0 for d in domains):
        EVENTS.add("empty-domain:" + e[0])
    results = []
    for combo in product(domains):
        r = ev(e[2], env + [dict(zip(names, combo))])
        if not isinstance(r, bool):
            raise Undecided("satisfies yields a non-boolean")
        results.append(r)
    if e[0] == "some":
        return any(results)
    return all(results)


# ---------------------------------------------------------------------------------------------
# rendering to FEEL text (sub-expressions always parenthesised: precedence is C06's subject)
# ---------------------------------------------------------------------------------------------
ATOMS = ("num", "str", "bool", "null", "name", "list", "ctx", "paren", "call", "callnamed", "range")


def fstr(s):
    out = ['"']
    for ch in s:
        if ch == '"':
            out.append('\\"')
        elif ch == "\\":
            out.append("\\\\")
        elif ch == "\n":
            out.append("\\n")
        elif ch == "\t":
            out.append("\\t")
        else:
            out.append(ch)
    out.append('"')
    return "".join(out)


TIGHT_PATHS = ()  # entry names for which `name.entry` is written without parentheses in operand positions


def w(e):
    """operand position: parenthesise anything that is not an atom"""
    s = render(e)
    if e[0] in ATOMS or e[0] == "filter":
        return s
    if e[0] == "path" and e[1][0] == "name" and e[2] in TIGHT_PATHS:
        return s
    return "(" + s + ")"


def render(e):
    t = e[0]
    if t == "num":
        return e[1]
    if t == "str":
        return fstr(e[1])
    if t == "bool":
        return "true" if e[1] else "false"
    if t == "null":
        return "null"
    if t == "name":
        return e[1]
    if t == "paren":
        return "(" + render(e[1]) + ")"
    if t == "neg":
        return "-" + w(e[1])
    if t in ("add", "sub", "mul", "div", "exp"):
        return "%s %s %s" % (w(e[1]), {"add": "+", "sub": "-", "mul": "*", "div": "/", "exp": "**"}[t], w(e[2]))
    if t == "cmp":
        return "%s %s %s" % (w(e[2]), e[1], w(e[3]))
    if t in ("and", "or"):
        return "%s %s %s" % (w(e[1]), t, w(e[2]))
    if t == "if":
        return "if %s then %s else %s" % (w(e[1]), w(e[2]), w(e[3]))
    if t == "between":
        return "%s between %s and %s" % (w(e[1]), w(e[2]), w(e[3]))
    if t == "range":
        return "%s%s..%s%s" % ("[" if e[2] else "(", w(e[1]), w(e[3]), "]" if e[4] else ")")
    if t == "in":
        return "%s in %s" % (w(e[1]), w(e[2]))
    if t == "in_ut":
        return "%s in (%s)" % (w(e[1]), ", ".join(render_ut(u) for u in e[2]))
    if t == "list":
        return "[" + ", ".join(render(x) for x in e[1]) + "]"
    if t == "ctx":
        return "{" + ", ".join("%s: %s" % (k, render(v)) for k, v in e[1]) + "}"
    if t == "path":
        if e[1][0] == "path":
            return "(%s).%s" % (render(e[1]), e[2])  # never a dotted name of three segments (C06's known parser defect)
        return "%s.%s" % (w(e[1]), e[2])
    if t == "filter":
        return "%s[%s]" % (w(e[1]), render(e[2]))
    if t == "for":
        its = []
        for n, d in e[1]:
            if d[0] == "dom_list":
                its.append("%s in %s" % (n, w(d[1])))
            else:
                its.append("%s in %s..%s" % (n, w(d[1]), w(d[2])))
        return "for %s return %s" % (", ".join(its), w(e[2]))
    if t in ("some", "every"):
        return "%s %s satisfies %s" % (t, ", ".join("%s in %s" % (n, w(d)) for n, d in e[1]), w(e[2]))
    if t == "fundef":
        return "function(%s) %s" % (", ".join(e[1]), w(e[2]))
    if t == "after_external":
        return '[function(%s) external {java: {class: "java.lang.Math", method signature: "abs(double)"}}, %s][2]' % (", ".join(e[1]), render(e[2]))
    if t == "call":
        f = render(e[1]) if e[1][0] == "name" else "(" + render(e[1]) + ")"
        return "%s(%s)" % (f, ", ".join(render(a) for a in e[2]))
    if t == "callnamed":
        f = render(e[1]) if e[1][0] == "name" else "(" + render(e[1]) + ")"
        return "%s(%s)" % (f, ", ".join("%s: %s" % (n, render(a)) for n, a in e[2]))
    raise ValueError("render " + str(t))


def render_ut(u):
    if u[0] == "ut_val":
        return w(u[1])
    return "%s %s" % (u[1], w(u[2]))


# ---------------------------------------------------------------------------------------------
# python value <-> driver value JSON
# ---------------------------------------------------------------------------------------------
def to_json(v):
    """python value -> scope value JSON (for binding free names programmatically)"""
    if v is None or isinstance(v, bool):
        return v
    if isinstance(v, Decimal):
        return {"n": str(v)}
    if isinstance(v, str):
        return {"s": v}
    if isinstance(v, list):
        return [to_json(x) for x in v]
    if isinstance(v, dict):
        return {"c": [[k, to_json(x)] for k, x in v.items()]}
    if isinstance(v, tuple) and v[0] == "range":
        return {"r": [to_json(v[1]), v[2], to_json(v[3]), v[4]]}
    if isinstance(v, Fn):
        return {"feel": render(("fundef", v.params, v.body))}
    raise ValueError("to_json " + repr(v))


class NonFinite(Exception):
    pass


def same(expected, observed):
    """structural comparison of a reference value with the implementation's value JSON"""
    if expected is None:
        return observed is None
    if isinstance(expected, bool):
        return observed is expected
    if isinstance(expected, Decimal):
        if not (isinstance(observed, dict) and "n" in observed):
            return False
        try:
            d = Decimal(observed["n"])
        except Exception:
            return False
        if not d.is_finite():
            return False
        return d == expected
    if isinstance(expected, str):
        return isinstance(observed, dict) and observed.get("s") == expected and len(observed) == 1
    if isinstance(expected, list):
        return isinstance(observed, list) and len(observed) == len(expected) and all(same(a, b) for a, b in zip(expected, observed))
    if isinstance(expected, dict):
        if not (isinstance(observed, dict) and "c" in observed):
            return False
        entries = observed["c"]
        if len(entries) != len(expected):
            return False
        od = {k: v for k, v in entries}
        if set(od.keys()) != set(expected.keys()):
            return False
        return all(same(expected[k], od[k]) for k in expected)
    if isinstance(expected, tuple) and expected[0] == "range":
        if not (isinstance(observed, dict) and "r" in observed):
            return False
        r = observed["r"]
        return same(expected[1], r[0]) and expected[2] == r[1] and same(expected[3], r[2]) and expected[4] == r[3]
    if isinstance(expected, Fn):
        return isinstance(observed, dict) and observed.get("fn") == len(expected.params)
    return False


def show(v):
    if v is None:
        return "null"
    if isinstance(v, bool):
        return "true" if v else "false"
    if isinstance(v, Decimal):
        return str(v)
    if isinstance(v, str):
        return fstr(v)
    if isinstance(v, list):
        return "[" + ", ".join(show(x) for x in v) + "]"
    if isinstance(v, dict):
        return "{" + ", ".join("%s: %s" % (k, show(x)) for k, x in sorted(v.items())) + "}"
    if isinstance(v, tuple) and v[0] == "range":
        return "%s%s..%s%s" % ("[" if v[2] else "(", show(v[1]), show(v[3]), "]" if v[4] else ")")
    if isinstance(v, Fn):
        return "function/%d" % len(v.params)
    return repr(v)


def kind_of_json(j):
    if j is None:
        return "null"
    if isinstance(j, bool):
        return "boolean"
    if isinstance(j, list):
        return "list"
    if isinstance(j, dict):
        for k, name in (("n", "number"), ("s", "string"), ("c", "context"), ("r", "range"), ("fn", "function"), ("bif", "function"), ("d", "date"), ("t", "time"), ("dt", "date and time"), ("dtd", "days and time duration"), ("ymd", "years and months duration")):
            if k in j:
                if k == "n" and j["n"] in ("Infinity", "-Infinity", "NaN", "-NaN", "sNaN"):
                    return "non-finite"
                return name
        return "other:" + ",".join(sorted(j.keys()))
    return "other"
