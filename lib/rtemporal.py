"""Reference model for FEEL / XSD temporal literals and for calendar / time-line arithmetic (C14, C15).

Python stdlib only. Nothing here looks at the implementation; the zone table (the set of zone ids the
implementation knows) is passed in by the caller because the property defines zone validity by it.

Literal classification returns a `Cls`:
    status  'valid'      the literal is valid and denotes `value`
            'invalid'    the literal must evaluate to null; `reason` says why (used for signatures)
            'undecided'  the property statement does not settle it (counted, never a violation)
            'huge'       syntactically valid but beyond the representable maximum: null or `value`
    value   kind-specific tuple (see parse_* below)
"""
import re
from collections import namedtuple

Cls = namedtuple("Cls", "status value reason")

YEAR_MAX = 999_999_999
U64_MAX = 2**64 - 1
I64_MAX = 2**63 - 1
NANOS = 1_000_000_000

# ----------------------------------------------------------------------------------------------
# proleptic Gregorian calendar on unbounded integers
# ----------------------------------------------------------------------------------------------


def is_leap(y):
    return y % 4 == 0 and (y % 100 != 0 or y % 400 == 0)


def days_in_month(y, m):
    if m in (1, 3, 5, 7, 8, 10, 12):
        return 31
    if m in (4, 6, 9, 11):
        return 30
    if m == 2:
        return 29 if is_leap(y) else 28
    return None


def valid_date(y, m, d):
    dim = days_in_month(y, m) if 1 <= m <= 12 else None
    return dim is not None and 1 <= d <= dim and -YEAR_MAX <= y <= YEAR_MAX


def days_from_civil(y, m, d):
    """Day number of a proleptic Gregorian date, 1970-01-01 = 0 (any integer year; year 0 = 1 BCE)."""
    y -= m <= 2
    era = y // 400
    yoe = y - era * 400
    doy = (153 * (m + (-3 if m > 2 else 9)) + 2) // 5 + d - 1
    doe = yoe * 365 + yoe // 4 - yoe // 100 + doy
    return era * 146097 + doe - 719468


def civil_from_days(z):
    z += 719468
    era = z // 146097
    doe = z - era * 146097
    yoe = (doe - doe // 1460 + doe // 36524 - doe // 146096) // 365
    y = yoe + era * 400
    doy = doe - (365 * yoe + yoe // 4 - yoe // 100)
    mp = (5 * doy + 2) // 153
    d = doy - (153 * mp + 2) // 5 + 1
    m = mp + (3 if mp < 10 else -9)
    return (y + (m <= 2), m, d)


def weekday(y, m, d):
    """1 = Monday .. 7 = Sunday."""
    return (days_from_civil(y, m, d) + 3) % 7 + 1


def self_test():
    """Cross-check of the integer calendar against datetime/calendar inside their range; returns the
    number of comparisons made (raises AssertionError on any disagreement)."""
    import calendar
    import datetime

    n = 0
    epoch = datetime.date(1970, 1, 1).toordinal()
    for y in list(range(1, 420)) + list(range(1580, 2420)) + list(range(9590, 10000)):
        assert is_leap(y) == calendar.isleap(y)
        for m in range(1, 13):
            dim = calendar.monthrange(y, m)[1]
            assert days_in_month(y, m) == dim
            for d in (1, 2, 15, dim - 1, dim):
                dd = datetime.date(y, m, d)
                z = days_from_civil(y, m, d)
                assert z == dd.toordinal() - epoch, (y, m, d)
                assert civil_from_days(z) == (y, m, d)
                assert weekday(y, m, d) == dd.isoweekday()
                n += 1
    # the 400-year cycle outside datetime's range
    for y in (-999_999_999, -400_001, -1, 0, 10_000, 262_143, 262_144, 999_999_999):
        for m, d in ((1, 1), (2, 28), (3, 1), (12, 31)):
            z = days_from_civil(y, m, d)
            assert civil_from_days(z) == (y, m, d)
            y2 = y % 400 + 2000
            assert (z - days_from_civil(y2, m, d)) % 146097 == 0
            assert weekday(y, m, d) == weekday(y2, m, d)
            n += 1
    return n


# ----------------------------------------------------------------------------------------------
# literals
# ----------------------------------------------------------------------------------------------

_RE_DATE = re.compile(r"^(-?)([0-9]+)-([0-9]{2})-([0-9]{2})\Z")
_RE_TIME = re.compile(r"^([0-9]{2}):([0-9]{2}):([0-9]{2})(?:\.([0-9]*))?(.*)\Z", re.S)
_RE_OFFSET = re.compile(r"^([+-])([0-9]{2,}):([0-9]{2})(?::([0-9]{2}))?\Z")
_RE_DTD = re.compile(r"^(-?)P(?:([0-9]+)D)?(T(?:([0-9]+)H)?(?:([0-9]+)M)?(?:([0-9]+)(?:(\.)([0-9]*))?S)?)?\Z")
_RE_YMD = re.compile(r"^(-?)P(?:([0-9]+)Y)?(?:([0-9]+)M)?\Z")
_RE_XSD_DUR = re.compile(r"^-?P(?:[0-9]+Y)?(?:[0-9]+M)?(?:[0-9]+D)?(?:T(?:[0-9]+H)?(?:[0-9]+M)?(?:[0-9]+(?:\.[0-9]+)?S)?)?\Z")


def classify_date(s):
    """value = (year, month, day)"""
    m = _RE_DATE.match(s)
    if not m:
        return Cls("invalid", None, "syntax")
    sign, ys, ms, ds = m.groups()
    if len(ys) < 4:
        return Cls("invalid", None, "year-fewer-than-4-digits")
    y, mo, d = int(ys), int(ms), int(ds)
    if len(ys) > 9 or y > YEAR_MAX:
        return Cls("invalid", None, "year-out-of-range")
    if len(ys) > 4 and ys[0] == "0":
        return Cls("undecided", None, "year-leading-zero-beyond-4-digits")
    if y == 0:
        return Cls("undecided", None, "year-zero")
    if sign:
        y = -y
    if not 1 <= mo <= 12:
        return Cls("invalid", None, "month-out-of-range")
    if d == 0:
        return Cls("invalid", None, "day-zero")
    if d > days_in_month(y, mo):
        return Cls("invalid", None, "day-beyond-month-length")
    return Cls("valid", (y, mo, d), None)


def classify_zone(z, zones):
    """zone value: None (local) | ('off', seconds) | ('zone', id)"""
    if z == "":
        return Cls("valid", None, None)
    if z == "Z":
        return Cls("valid", ("off", 0), None)
    if z == "z":
        return Cls("undecided", None, "lowercase-z")
    if z[0] == "@":
        zid = z[1:]
        if zid in zones:
            return Cls("valid", ("zone", zid), None)
        low = zid.lower()
        if zid and any(low == k.lower() for k in zones):
            return Cls("undecided", None, "zone-id-case")
        return Cls("invalid", None, "zone-unknown")
    m = _RE_OFFSET.match(z)
    if not m:
        return Cls("invalid", None, "zone-syntax")
    sign, hh, mm, ss = m.groups()
    if len(hh) != 2 and int(hh) <= 14:
        return Cls("invalid", None, "zone-syntax")
    hh, mm, ss = int(hh), int(mm), int(ss or 0)
    if hh > 14:
        return Cls("invalid", None, "offset-hour>14")
    if mm > 59:
        return Cls("invalid", None, "offset-minute>=60")
    if ss > 59:
        return Cls("invalid", None, "offset-second>=60")
    secs = hh * 3600 + mm * 60 + ss
    return Cls("valid", ("off", -secs if sign == "-" else secs), None)


def classify_time(s, zones):
    """value = (hour, minute, second, nanos, zone)"""
    m = _RE_TIME.match(s)
    if not m:
        return Cls("invalid", None, "syntax")
    hh, mm, ss, frac, rest = m.groups()
    undecided = None
    nanos = 0
    if frac is not None:
        if frac == "":
            return Cls("invalid", None, "fraction-without-digits")
        if len(frac) > 9 and frac[9:].strip("0"):
            undecided = "fraction-beyond-nanoseconds"
        nanos = int((frac + "000000000")[:9])
    zc = classify_zone(rest, zones)
    if zc.status == "invalid":
        return zc
    h, mi, se = int(hh), int(mm), int(ss)
    if h > 23:
        return Cls("invalid", None, "hour>=24")
    if mi > 59:
        return Cls("invalid", None, "minute>=60")
    if se > 59:
        return Cls("invalid", None, "second>=60")
    if zc.status == "undecided":
        return zc
    if undecided:
        # tentative value: everything but the fraction is settled
        return Cls("undecided", (h, mi, se, nanos, zc.value), undecided)
    return Cls("valid", (h, mi, se, nanos, zc.value), None)


def classify_date_time(s, zones):
    """value = (year, month, day, hour, minute, second, nanos, zone)"""
    k = s.find("T")
    if k < 0:
        if classify_date(s).status != "invalid":
            return Cls("undecided", None, "date-only")
        return Cls("invalid", None, "syntax")
    dc = classify_date(s[:k])
    tc = classify_time(s[k + 1 :], zones)
    for c in (dc, tc):
        if c.status == "invalid" and c.reason in ("syntax", "zone-syntax"):
            return c
    for c in (dc, tc):
        if c.status == "invalid":
            return c
    if dc.status == "undecided":
        return Cls("undecided", None, dc.reason)
    if tc.status == "undecided":
        return Cls("undecided", dc.value + tc.value if tc.value else None, tc.reason)
    return Cls("valid", dc.value + tc.value, None)


def classify_dtd(s):
    """value = signed total nanoseconds"""
    m = _RE_DTD.match(s)
    if not m:
        return Cls("invalid", None, "syntax")
    sign, d, tpart, h, mi, se, dot, frac = m.groups()
    if d is None and h is None and mi is None and se is None:
        return Cls("invalid", None, "no-component")
    if tpart is not None and h is None and mi is None and se is None:
        return Cls("invalid", None, "T-without-time-component")
    undecided = None
    if dot is not None and not frac:
        # `PT0.S`: not an XSD lexical form, but the implementation's own unit tests pin it as accepted;
        # the statement does not settle it
        undecided = "fraction-without-digits"
    nanos = 0
    if frac:
        if len(frac) > 9 and frac[9:].strip("0"):
            undecided = "fraction-beyond-nanoseconds"
        nanos = int((frac + "000000000")[:9])
    comps = [int(x) if x is not None else 0 for x in (d, h, mi, se)]
    total = ((comps[0] * 24 + comps[1]) * 60 + comps[2]) * 60 + comps[3]
    total = total * NANOS + nanos
    if sign:
        total = -total
    if undecided:
        return Cls("undecided", total, undecided)
    if any(c > U64_MAX for c in comps):
        return Cls("huge", total, "component>u64")
    return Cls("valid", total, None)


def classify_ymd(s):
    """value = signed total months"""
    m = _RE_YMD.match(s)
    if not m:
        return Cls("invalid", None, "syntax")
    sign, y, mo = m.groups()
    if y is None and mo is None:
        return Cls("invalid", None, "no-component")
    total = int(y or 0) * 12 + int(mo or 0)
    if sign:
        total = -total
    if abs(total) > I64_MAX:
        return Cls("huge", total, "months>i64")
    return Cls("valid", total, None)


def classify_duration(s):
    """value = ('ymd', months) | ('dtd', nanos)"""
    a = classify_ymd(s)
    if a.status != "invalid":
        return Cls(a.status, ("ymd", a.value), a.reason)
    b = classify_dtd(s)
    if b.status != "invalid":
        return Cls(b.status, ("dtd", b.value), b.reason)
    if _RE_XSD_DUR.match(s) and not s.endswith("P") and not s.endswith("T"):
        return Cls("undecided", None, "mixed-duration")
    # report the more specific of the two reasons
    return b if b.reason != "syntax" else a if a.reason != "syntax" else b


def classify(kind, s, zones):
    if kind == "d":
        return classify_date(s)
    if kind == "t":
        return classify_time(s, zones)
    if kind == "dt":
        return classify_date_time(s, zones)
    if kind == "dtd":
        c = classify_dtd(s)
        if c.status == "invalid" and classify_ymd(s).status != "invalid":
            return Cls("invalid", None, "other-duration-kind")
        return c
    if kind == "ymd":
        c = classify_ymd(s)
        if c.status == "invalid" and classify_dtd(s).status != "invalid":
            return Cls("invalid", None, "other-duration-kind")
        return c
    if kind == "dur":
        return classify_duration(s)
    raise ValueError(kind)


# ----------------------------------------------------------------------------------------------
# rendering (generators and the normal form of durations)
# ----------------------------------------------------------------------------------------------


def fmt_year(y):
    return ("-" if y < 0 else "") + "%04d" % abs(y)


def fmt_date(y, m, d):
    return "%s-%02d-%02d" % (fmt_year(y), m, d)


def fmt_fraction(nanos, digits=None):
    """'' for no fraction; `digits` None = shortest form, otherwise exactly that many digits (>= needed)."""
    if digits is None:
        if nanos == 0:
            return ""
        return "." + ("%09d" % nanos).rstrip("0")
    if digits == 0:
        return ""
    s = "%09d" % nanos
    if digits <= 9:
        return "." + s[:digits]
    return "." + s + "0" * (digits - 9)


def fmt_offset(secs, z_for_zero=False):
    if secs == 0 and z_for_zero:
        return "Z"
    a = abs(secs)
    s = "%s%02d:%02d" % ("-" if secs < 0 else "+", a // 3600, a % 3600 // 60)
    if a % 60:
        s += ":%02d" % (a % 60)
    return s


def fmt_zone(zone):
    if zone is None:
        return ""
    if zone[0] == "off":
        return fmt_offset(zone[1], True)
    return "@" + zone[1]


def fmt_time(h, m, s, nanos=0, zone=None, digits=None):
    return "%02d:%02d:%02d%s%s" % (h, m, s, fmt_fraction(nanos, digits), fmt_zone(zone))


def canon_dtd(total):
    """XSD canonical / FEEL normal form of a days-and-time duration given in nanoseconds."""
    if total == 0:
        return "PT0S"
    a = abs(total)
    nanos = a % NANOS
    a //= NANOS
    se = a % 60
    a //= 60
    mi = a % 60
    a //= 60
    h = a % 24
    d = a // 24
    out = "-P" if total < 0 else "P"
    if d:
        out += "%dD" % d
    if h or mi or se or nanos:
        out += "T"
        if h:
            out += "%dH" % h
        if mi:
            out += "%dM" % mi
        if se or nanos:
            out += "%d%sS" % (se, fmt_fraction(nanos))
    return out


ZERO_DTD = ("PT0S", "P0D", "PT0H", "PT0M", "P0DT0H0M0S")
ZERO_YMD = ("P0M", "P0Y", "P0Y0M")


def canon_ymd(total):
    if total == 0:
        return "P0M"
    a = abs(total)
    out = "-P" if total < 0 else "P"
    if a // 12:
        out += "%dY" % (a // 12)
    if a % 12:
        out += "%dM" % (a % 12)
    return out


# ----------------------------------------------------------------------------------------------
# time line
# ----------------------------------------------------------------------------------------------


def instant_nanos(y, mo, d, h, mi, se, nanos, offset_secs):
    """Nanoseconds since 1970-01-01T00:00:00Z of a local date-time at a UTC offset."""
    days = days_from_civil(y, mo, d)
    return ((days * 86400 + h * 3600 + mi * 60 + se - offset_secs) * NANOS) + nanos


def whole_months_between(a, b):
    """Number of whole months from date a to date b (both (y, m, d)); negative when b < a.
    Returns (months, ambiguous): `ambiguous` is True when clipping the day of month to a shorter
    month changes the answer (e.g. Jan 31 -> Feb 28), which the statement does not settle."""
    if a <= b:
        lo, hi, sign = a, b, 1
    else:
        lo, hi, sign = b, a, -1
    months = (hi[0] - lo[0]) * 12 + (hi[1] - lo[1])
    ambiguous = False
    if hi[2] < lo[2]:
        if hi[2] == days_in_month(hi[0], hi[1]):
            ambiguous = True
        months -= 1
    return sign * months, ambiguous


# ----------------------------------------------------------------------------------------------
# panic signatures that do not depend on a captured backtrace
# ----------------------------------------------------------------------------------------------


def panic_site_signature(p):
    """panic:<source file of the panic site, crate-relative, no line number>:<message class>.
    The driver's first-dmntk-frame is not always available (the forced backtrace can come back empty
    under load), the panic location always is."""
    if not isinstance(p, dict):
        return "panic:unknown"
    loc = p.get("loc") or ""
    path = loc.rsplit(":", 1)[0] if ":" in loc else loc
    k = path.rfind("/src/")
    if k >= 0:
        crate = path[:k].rsplit("/", 1)[-1]
        crate = re.sub(r"-[0-9][0-9A-Za-z.+-]*$", "", crate)
        site = crate + path[k:]
    else:
        site = path.rsplit("/", 1)[-1] or "?"
    msg = p.get("msg", "")
    msg = re.sub(r"'[^']*'", "'_'", msg)
    msg = re.sub(r'"[^"]*"', '"_"', msg)
    msg = re.sub(r"[0-9]+", "N", msg)[:80]
    return "panic:%s:%s" % (site, msg)
