"""Verdict discipline, known findings, evidence and replay files (DESIGN.md §1)."""
import hashlib
import json
import os
import random
import re
import sys
import time

from runner import VERIF, WORK, Inconclusive

KNOWN_DIR = os.path.join(VERIF, "known_findings")
# Scratch runs (VERIF_WORK / VERIF_REPO set by a developer) must not overwrite the real evidence.
_OUT_BASE = VERIF if os.path.abspath(WORK).startswith(os.path.abspath(VERIF) + os.sep) else os.path.dirname(os.path.abspath(WORK))
EVIDENCE_DIR = os.path.join(_OUT_BASE, "evidence")
REPLAY_DIR = os.path.join(_OUT_BASE, "replays")

LEVELS = {}


def load_known():
    """Known findings live in /verif/known_findings/<ID>.json (committed, never written at run time)."""
    out = []
    try:
        names = sorted(os.listdir(KNOWN_DIR))
    except FileNotFoundError:
        return out
    for name in names:
        if name.endswith(".json"):
            with open(os.path.join(KNOWN_DIR, name)) as f:
                out.extend(json.load(f).get("findings", []))
    return out


def sanitize_sig(sig):
    return re.sub(r"[^A-Za-z0-9_.=:+<>!,-]+", "_", sig)[:160]


def panic_signature(p):
    """panic:<first dmntk frame or location>:<message class>; digits and quoted payloads stripped."""
    if not isinstance(p, dict):
        return "panic:unknown"
    frame = p.get("frame") or p.get("loc") or "?"
    frame = re.sub(r"::\{\{closure\}\}", "", frame)
    frame = re.sub(r"::h[0-9a-f]{16}$", "", frame)
    frame = re.sub(r"<([^<>]*) as ([^<>]*)>", r"\1", frame)
    frame = re.sub(r"<([\w:]+)>", r"\1", frame)  # nightly prints inherent impls as <path::Type>::method
    msg = p.get("msg", "")
    msg = re.sub(r"'[^']*'", "'_'", msg)
    msg = re.sub(r'"[^"]*"', '"_"', msg)
    msg = re.sub(r"`[^`]*`", "`_`", msg)
    msg = re.sub(r"\d+", "N", msg)
    msg = msg[:80]
    return "panic:%s:%s" % (frame, msg)


def crash_signature(rec, case_class=""):
    if "timeout" in rec:
        return "hang:%s" % case_class
    c = rec.get("crash", {})
    stderr = c.get("stderr", "")
    if "AddressSanitizer" in stderr:
        m = re.search(r"AddressSanitizer: ([a-zA-Z-]+)", stderr)
        kind = m.group(1) if m else "report"
        fm = re.search(r"#\d+ 0x[0-9a-f]+ in (\S*(?:dmntk|dec[A-Z])\S*)", stderr)
        return "asan:%s:%s" % (kind, fm.group(1) if fm else "?")
    if "stack overflow" in stderr or "has overflowed its stack" in stderr:
        return "abort:stack-overflow:%s" % case_class
    return "abort:%s:%s" % (c.get("signal") or c.get("returncode"), case_class)


class Report:
    """Collects observations and violations for one property run and renders the verdict."""

    def __init__(self, prop_id, tier, seed, level="exploration"):
        self.prop_id = prop_id
        self.tier = tier
        self.seed = seed
        self.level = level
        self.t0 = time.time()
        self.violations = {}  # sig -> {what, replay, count}
        self.inconclusive = []
        self.evaluations = 0
        self.distinct = set()
        self.distinct_count = None  # set when distinct cases are counted elsewhere (e.g. inside the driver)
        self.samples = []
        self.extra = {}
        self.rule = ""
        self.assumptions = []
        self.undecided = 0
        self.known = [k for k in load_known() if k.get("property") == prop_id]
        os.makedirs(os.path.join(WORK, prop_id), exist_ok=True)
        self.workdir = os.path.join(WORK, prop_id)

    # ---- observations ----
    def count(self, n=1):
        self.evaluations += n

    def seen(self, key):
        """Registers a distinct non-trivial case key (hashable)."""
        self.distinct.add(key)

    def sample(self, obj, limit=6):
        if len(self.samples) < limit:
            self.samples.append(obj)

    def bump(self, key, n=1):
        self.extra[key] = self.extra.get(key, 0) + n

    # ---- verdicts ----
    def violation(self, sig, what, replay=None):
        sig = sanitize_sig(sig)
        v = self.violations.get(sig)
        if v is None:
            self.violations[sig] = {"what": what, "replay": replay, "count": 1}
        else:
            v["count"] += 1

    def inconclusive_reason(self, reason):
        self.inconclusive.append(reason)

    def _known_entry(self, sig):
        for k in self.known:
            if k.get("status") == "known" and k.get("signature") == sig:
                return k
        return None

    def finish(self):
        wall = time.time() - self.t0
        os.makedirs(EVIDENCE_DIR, exist_ok=True)
        unlisted = []
        known_hits = []
        for sig, v in sorted(self.violations.items()):
            k = self._known_entry(sig)
            if k is not None:
                known_hits.append((sig, v, k))
            else:
                unlisted.append((sig, v))
        for sig, v, k in known_hits:
            print("KNOWN-FINDING: property=%s %s [signature=%s, seen %d times this run]" % (self.prop_id, k.get("what_fails", v["what"]), sig, v["count"]))
        rdir = os.path.join(REPLAY_DIR, self.prop_id)
        for sig, v in unlisted:
            os.makedirs(rdir, exist_ok=True)
            path = os.path.join(rdir, sig + ".json")
            with open(path, "w") as f:
                json.dump({"property": self.prop_id, "signature": sig, "what": v["what"], "seed": self.seed, "tier": self.tier, "replay": v["replay"]}, f, indent=1, ensure_ascii=True, default=str)
            print("VIOLATION property=%s replay=%s" % (self.prop_id, path))
            print("  signature=%s count=%d: %s" % (sig, v["count"], str(v["what"])[:600]))
        for r in self.inconclusive:
            print("INCONCLUSIVE property=%s reason=%s" % (self.prop_id, r))
        coverage = {
            "evaluations": int(self.evaluations),
            "distinct_nontrivial": int(self.distinct_count if self.distinct_count is not None else len(self.distinct)),
            "rule": self.rule,
            "samples": self.samples if self.samples else ["<no sample recorded>"],
            "undecided_by_oracle": int(self.undecided),
            "known_findings_seen": sorted(sig for sig, _, _ in known_hits),
            "unlisted_violation_signatures": sorted(sig for sig, _ in unlisted),
            "inconclusive": self.inconclusive,
        }
        coverage.update(self.extra)
        ev = {
            "property_id": self.prop_id,
            "tier": self.tier,
            "seed": int(self.seed),
            "level": self.level,
            "coverage": coverage,
            "assumptions": self.assumptions,
            "wall_s": round(wall, 2),
            "violations": len(unlisted),
        }
        with open(os.path.join(EVIDENCE_DIR, self.prop_id + ".json"), "w") as f:
            json.dump(ev, f, indent=1, ensure_ascii=True, default=str)
        status = "VIOLATED" if unlisted else ("INCONCLUSIVE" if self.inconclusive else "HELD")
        print(
            "[%s] %s tier=%s seed=%d evaluations=%d distinct_nontrivial=%d undecided=%d known_findings=%d wall=%.1fs"
            % (self.prop_id, status, self.tier, self.seed, self.evaluations, self.distinct_count if self.distinct_count is not None else len(self.distinct), self.undecided, len(known_hits), wall)
        )
        if unlisted:
            return 1
        if self.inconclusive:
            return 3
        return 0


def stable_hash(obj):
    return hashlib.sha1(json.dumps(obj, sort_keys=True, ensure_ascii=True, default=str).encode()).hexdigest()[:16]


def rng_for(seed, *salt):
    h = hashlib.sha256(("%d|" % seed + "|".join(str(s) for s in salt)).encode()).digest()
    return random.Random(int.from_bytes(h[:8], "big"))


def chunks(seq, n):
    for i in range(0, len(seq), n):
        yield seq[i : i + n]


# ---- history-sensitive evaluation ("warm" evaluators) --------------------------------------------
def decoy_value(v, funs, k=0):
    """another value of the same kind for the same name (driver JSON forms)"""
    if v is None:
        return None
    if isinstance(v, bool):
        return not v
    if isinstance(v, list):
        return [decoy_value(x, funs, k + 1) for x in reversed(v)] + ([decoy_value(v[0], funs, k + 1)] if v else [{"n": "5"}])
    if isinstance(v, dict):
        if "n" in v:
            return {"n": "3" if v["n"] in ("7.25", "7.250") else "7.25"}
        if "s" in v:
            return {"s": v["s"] + "~"}
        if "c" in v:
            return {"c": [[n, decoy_value(x, funs, k + 1)] for n, x in v["c"]]}
        if "feel" in v and funs:
            # a function (or another expression-built value): the next one bound anywhere in this scope
            return {"feel": funs[(funs.index(v["feel"]) + 1) % len(funs)]} if v["feel"] in funs else v
    return v


def decoy_scope(scope):
    """the scope (list of contexts, each a list of [name, value]) with every name bound to ANOTHER value of its kind:
    numbers and strings changed, booleans negated, lists reversed and longer, contexts entry by entry, functions rotated
    among the functions bound in the scope. Used to give a prepared evaluator a first use before the judged one."""
    funs = []

    def collect(v):
        if isinstance(v, dict):
            if "feel" in v and v["feel"] not in funs:
                funs.append(v["feel"])
            for x in v.get("c", []):
                collect(x[1])
        elif isinstance(v, list):
            for x in v:
                collect(x)

    for ctx in scope:
        for _n, v in ctx:
            collect(v)
    return [[[n, decoy_value(v, funs)] for n, v in ctx] for ctx in scope]


def shape_decoy_scope(scope):
    """the scope with the same names but another SHAPE: context-valued names are bound to null, lists that hold contexts to []"""

    def flat(v):
        if isinstance(v, dict) and "c" in v:
            return None
        if isinstance(v, list) and any(isinstance(x, dict) and "c" in x for x in v):
            return []
        return v

    return [[[n, flat(v)] for n, v in ctx] for ctx in scope]


def warm(case):
    """adds the decoy scope (and one repetition) and the shape-decoy scope for the pre-parse to an eval / evalmany case"""
    if "scope" in case and "warm_scope" not in case:
        case["warm_scope"] = decoy_scope(case["scope"])
        case["preparse_scope"] = shape_decoy_scope(case["scope"])
        case.setdefault("reps", 2)
    return case
