"""Item-definition trees for C11: enumerator, DMN XML writer, value generator and the `conform` oracle.

A *node* describes one item definition (or item component):
    {"k": "simple", "t": <simple type>, "av": bool, "coll": bool}
    {"k": "ref",    "to": <node>,       "av": bool, "coll": bool}      typeRef = name of another item definition
    {"k": "comp",   "cs": [(name, node), ...],      "coll": bool}      itemComponent children
A *tree* is {"builtin": <simple type>} (the variable's typeRef names the FEEL type directly, no item
definition at all) or {"root": <node>}.

Depth = number of item definitions on the longest path (a collection flag does not add depth).
Everything in this file is deterministic; nothing depends on a seed.
"""
import json
from decimal import Decimal

# statement name, typeRef spelling used by every model shipped in /repo/examples, value-json key
SIMPLE = [
    ("string", "string", "s"),
    ("number", "number", "n"),
    ("boolean", "boolean", None),
    ("date", "date", "d"),
    ("time", "time", "t"),
    ("date and time", "dateTime", "dt"),
    ("days and time duration", "dayTimeDuration", "dtd"),
    ("years and months duration", "yearMonthDuration", "ymd"),
]
TYPES = [s[0] for s in SIMPLE]
TYPEREF = {s[0]: s[1] for s in SIMPLE}

# two conforming sample values per type (both allowed by AV below), one disallowed value
GOOD = {
    "string": [{"s": "a"}, {"s": "b"}],
    "number": [{"n": "5"}, {"n": "7"}],
    "boolean": [True, True],
    "date": [{"d": "2021-03-04"}, {"d": "2022-05-06"}],
    "time": [{"t": "10:20:30"}, {"t": "11:00:00"}],
    "date and time": [{"dt": "2021-03-04T10:20:30"}, {"dt": "2022-05-06T11:00:00"}],
    "days and time duration": [{"dtd": "P2D"}, {"dtd": "P3D"}],
    "years and months duration": [{"ymd": "P1Y"}, {"ymd": "P2Y"}],
}
DISALLOWED = {
    "string": {"s": "z"},
    "number": {"n": "11"},
    "boolean": False,
    "date": {"d": "2019-12-31"},
    "time": {"t": "20:00:00"},
    "date and time": {"dt": "2019-12-31T10:00:00"},
    "days and time duration": {"dtd": "P20D"},
    "years and months duration": {"ymd": "P5Y"},
}
# allowedValues text (FEEL unary tests) and the same predicate in Python
AV_TEXT = {
    "string": '"a","b"',
    "number": "[1..10]",
    "boolean": "true",
    "date": '> date("2020-01-01")',
    "time": '[time("08:00:00")..time("18:00:00")]',
    "date and time": '>= date and time("2020-01-01T00:00:00")',
    "days and time duration": '[duration("P1D")..duration("P10D")]',
    "years and months duration": 'duration("P1Y"),duration("P2Y")',
}


def _days(v):
    s = v["dtd"]
    assert s.startswith("P") and s.endswith("D") and s[1:-1].isdigit(), s
    return int(s[1:-1])


AV_PRED = {
    "string": lambda v: v["s"] in ("a", "b"),
    "number": lambda v: Decimal(1) <= Decimal(v["n"]) <= Decimal(10),
    "boolean": lambda v: v is True,
    "date": lambda v: v["d"] > "2020-01-01",
    "time": lambda v: "08:00:00" <= v["t"] <= "18:00:00",
    "date and time": lambda v: v["dt"] >= "2020-01-01T00:00:00",
    "days and time duration": lambda v: 1 <= _days(v) <= 10,
    "years and months duration": lambda v: v["ymd"] in ("P1Y", "P2Y"),
}


# --------------------------------------------------------------------------------------------
# values


def kind_of(v):
    """FEEL kind of a value-json."""
    if v is None:
        return "null"
    if isinstance(v, bool):
        return "boolean"
    if isinstance(v, list):
        return "list"
    if isinstance(v, dict):
        for name, _, key in SIMPLE:
            if key is not None and key in v:
                return name
        if "c" in v:
            return "context"
    return "other"


def norm(v):
    """Canonical form for comparison: numbers by value, context entries by name."""
    if isinstance(v, list):
        return [norm(x) for x in v]
    if isinstance(v, dict):
        if "n" in v:
            try:
                d = Decimal(v["n"])
                return {"n": str(d.normalize() if d != 0 else Decimal(0))}
            except Exception:
                return v
        if "c" in v:
            return {"c": sorted(([str(n), norm(x)] for n, x in v["c"]), key=lambda e: e[0])}
    return v


def same(a, b):
    return json.dumps(norm(a), sort_keys=True) == json.dumps(norm(b), sort_keys=True)


def ctx(entries):
    return {"c": [[n, v] for n, v in entries]}


def ctx_get(v, name):
    for n, x in v["c"]:
        if n == name:
            return True, x
    return False, None


def feel_literal(v):
    """FEEL text of a value-json (used for the literal expressions of the output-side decisions)."""
    if v is None:
        return "null"
    if v is True:
        return "true"
    if v is False:
        return "false"
    if isinstance(v, list):
        return "[" + ", ".join(feel_literal(x) for x in v) + "]"
    if "n" in v:
        return v["n"]
    if "s" in v:
        return json.dumps(v["s"])
    if "d" in v:
        return 'date("%s")' % v["d"]
    if "t" in v:
        return 'time("%s")' % v["t"]
    if "dt" in v:
        return 'date and time("%s")' % v["dt"]
    if "dtd" in v:
        return 'duration("%s")' % v["dtd"]
    if "ymd" in v:
        return 'duration("%s")' % v["ymd"]
    if "c" in v:
        return "{" + ", ".join("%s: %s" % (n, feel_literal(x)) for n, x in v["c"]) + "}"
    raise ValueError("no literal for %r" % (v,))


# --------------------------------------------------------------------------------------------
# nodes


def simple(t, av=False, coll=False):
    return {"k": "simple", "t": t, "av": av, "coll": coll}


def ref(to, av=False, coll=False):
    return {"k": "ref", "to": to, "av": av, "coll": coll}


def comp(cs, coll=False):
    return {"k": "comp", "cs": list(cs), "coll": coll, "av": False}


def uncoll(node):
    n = dict(node)
    n["coll"] = False
    # allowed values of a collection constrain its items (DMN 1.3 7.3.3: "the actual values ... are
    # collections of allowed values"), so they stay with the element node
    return n


def node_kind(node, with_type=True):
    """`coll-simple+av(string)`, `ref`, `coll-comp` ... : the local kind of one node."""
    s = ("coll-" if node["coll"] else "") + node["k"] + ("+av" if node.get("av") else "")
    if with_type and node["k"] == "simple":
        s += "(%s)" % node["t"]
    return s


def shape(node, with_type=False):
    """Structural skeleton of a node, optionally with the simple types."""
    s = node_kind(node, with_type)
    if node["k"] == "ref":
        return s + ">" + shape(node["to"], with_type)
    if node["k"] == "comp":
        return s + "(" + ",".join(shape(c, with_type) for _, c in node["cs"]) + ")"
    return s


def tree_shape(tree, with_type=False):
    if "builtin" in tree:
        return "builtin(%s)" % tree["builtin"] if with_type else "builtin"
    return shape(tree["root"], with_type)


def depth(node):
    if node["k"] == "simple":
        return 1
    if node["k"] == "ref":
        return 1 + depth(node["to"])
    return 1 + max(depth(c) for _, c in node["cs"])


def leaf_type(node):
    """Simple type a node resolves to through plain references, else None."""
    if node["k"] == "simple":
        return node["t"]
    if node["k"] == "ref" and not node["to"]["coll"]:
        return leaf_type(node["to"])
    return None


# --------------------------------------------------------------------------------------------
# enumeration


def enumerate_trees(max_depth=3):
    """All trees to `max_depth`, pruned: a component type has 1 or 2 components, and of a pair only one
    component varies over the sub-trees while the other is a witness (a plain simple type or a collection
    of a simple type, in first or second position); `ref+av` restricts a plain simple type only."""
    level1 = []
    for t in TYPES:
        for av in (False, True):
            for coll in (False, True):
                level1.append(simple(t, av, coll))
    levels = [level1]
    for _ in range(2, max_depth + 1):
        prev = levels[-1]
        cur = []
        for y in prev:
            cur.append(ref(y))
            cur.append(ref(y, coll=True))
            if y["k"] == "simple" and not y["av"] and not y["coll"]:
                cur.append(ref(y, av=True))
                cur.append(ref(y, av=True, coll=True))
        for i, y in enumerate(prev):
            witness = simple(TYPES[(i + 3) % len(TYPES)])
            cwitness = simple(TYPES[(i + 5) % len(TYPES)], coll=True)
            for coll in (False, True):
                cur.append(comp([("a", y)], coll))
                cur.append(comp([("a", y), ("b", witness)], coll))
                cur.append(comp([("a", witness), ("b", y)], coll))
                cur.append(comp([("a", y), ("b", cwitness)], coll))
                cur.append(comp([("a", cwitness), ("b", y)], coll))
        levels.append(cur)
    trees = [{"builtin": t} for t in TYPES]
    for lv in levels:
        trees.extend({"root": label(n)} for n in lv)
    return trees


def label(node, path="T"):
    """Deep copy with a path id on every node (`uncoll` keeps the id: position = (id, coll))."""
    n = dict(node)
    n["id"] = path
    if n["k"] == "ref":
        n["to"] = label(n["to"], path + ">")
    elif n["k"] == "comp":
        n["cs"] = [(name, label(c, path + "." + name)) for name, c in n["cs"]]
    return n


def pos(node):
    return (node.get("id", "T"), bool(node["coll"]))


def inside(inner, outer):
    """Position `inner` lies strictly below position `outer`."""
    (i, ic), (o, oc) = inner, outer
    if i == o:
        return oc and not ic
    return i.startswith(o) and i[len(o)] in ".>"


# --------------------------------------------------------------------------------------------
# XML


def xml_escape(s):
    return s.replace("&", "&amp;").replace("<", "&lt;").replace(">", "&gt;").replace('"', "&quot;")


def _av_text(t, defs):
    """the allowed values of type t; in a third of the models `null` is listed among them, first or last (the idiom of the
    shipped lending models: `[0..999], null`): a value of the right type that fails every other test is still not allowed"""
    if defs.av_null == 1:
        return AV_TEXT[t] + ", null"
    if defs.av_null == 2:
        return "null, " + AV_TEXT[t]
    return AV_TEXT[t]


class _Defs:
    def __init__(self, av_null=0):
        self.top = []
        self.n = 0
        self.av_null = av_null

    def fresh(self):
        self.n += 1
        return "R%d" % self.n


def _body(node, defs):
    """Child elements of an itemDefinition / itemComponent for `node`."""
    out = []
    if node["k"] == "simple":
        out.append("<typeRef>%s</typeRef>" % TYPEREF[node["t"]])
        if node["av"]:
            out.append("<allowedValues><text>%s</text></allowedValues>" % xml_escape(_av_text(node["t"], defs)))
    elif node["k"] == "ref":
        name = defs.fresh()
        defs.top.append(_item("itemDefinition", name, node["to"], defs))
        out.append("<typeRef>%s</typeRef>" % name)
        if node["av"]:
            out.append("<allowedValues><text>%s</text></allowedValues>" % xml_escape(_av_text(leaf_type(node), defs)))
    else:
        for cname, c in node["cs"]:
            out.append(_item("itemComponent", cname, c, defs))
    return "".join(out)


def _item(tag, name, node, defs):
    coll = ' isCollection="true"' if node["coll"] else ""
    return '<%s name="%s"%s>%s</%s>' % (tag, name, coll, _body(node, defs), tag)


def item_definitions_xml(tree, root_name="T"):
    """(xml of all itemDefinition elements, typeRef to use on the variable)."""
    if "builtin" in tree:
        return "", TYPEREF[tree["builtin"]]
    import hashlib as _hl0

    defs = _Defs(av_null=int(_hl0.sha1(("av" + repr(tree)).encode()).hexdigest(), 16) % 3)
    root = _item("itemDefinition", root_name, tree["root"], defs)
    # document order of the item definitions is not part of a model's meaning: a third of the trees declare every
    # referenced definition BEFORE its user (the order the shipped models use), a third AFTER it (forward references),
    # a third in between
    import hashlib as _hl

    order = int(_hl.sha1(repr(tree).encode()).hexdigest(), 16) % 3
    items = defs.top + [root]
    if order == 1:
        items = list(reversed(items))
    elif order == 2 and len(items) > 2:
        items = items[1:] + items[:1]
    return "\n".join(items), root_name


NS = "https://www.omg.org/spec/DMN/20191111/MODEL/"


def _wrap(body):
    return '<?xml version="1.0" encoding="UTF-8"?>\n<definitions xmlns="%s" namespace="https://verif.local/c11" name="c11" id="_defs">\n%s\n</definitions>' % (NS, body)


def input_model_xml(tree):
    """inputData `In` typed by the tree; decision `Echo` (no typeRef on its variable) returns `In`;
    decision service `EchoSvc` (no typeRef) = the same through the service route."""
    defs, type_ref = item_definitions_xml(tree)
    body = (
        defs
        + '\n<inputData name="In" id="_in"><variable name="In" typeRef="%s"/></inputData>' % type_ref
        + '\n<decision name="Echo" id="_echo"><variable name="Echo"/>'
        + '<informationRequirement id="_ir"><requiredInput href="#_in"/></informationRequirement>'
        + "<literalExpression><text>In</text></literalExpression></decision>"
        + '\n<decisionService name="EchoSvc" id="_echosvc"><variable name="EchoSvc"/>'
        + '<outputDecision href="#_echo"/><inputData href="#_in"/></decisionService>'
    )
    return _wrap(body)


def multi_output_parts(v):
    """the value is a context of two or more entries with distinct names: a decision service can assemble it from several output decisions"""
    return isinstance(v, dict) and "c" in v and len(v["c"]) >= 2 and len({n for n, _ in v["c"]}) == len(v["c"])


def output_model_xml(tree, values):
    """For value k: decision `Raw<k>` (untyped, literal of the value: shows what the logic produced),
    decision `Out<k>` (same literal, variable typed by the tree), decision service `Svc<k>` (variable
    typed by the tree, output decision Raw<k>); one BKM `Bkm` (variable typed by the tree, untyped
    parameter `x`, body `x`)."""
    defs, type_ref = item_definitions_xml(tree)
    parts = [defs]
    for k, v in enumerate(values):
        text = xml_escape(feel_literal(v))
        parts.append('<decision name="Raw%d" id="_raw%d"><variable name="Raw%d"/><literalExpression><text>%s</text></literalExpression></decision>' % (k, k, k, text))
        parts.append(
            '<decision name="Out%d" id="_out%d"><variable name="Out%d" typeRef="%s"/><literalExpression><text>%s</text></literalExpression></decision>'
            % (k, k, k, type_ref, text)
        )
        parts.append(
            '<decisionService name="Svc%d" id="_svc%d"><variable name="Svc%d" typeRef="%s"/><outputDecision href="#_raw%d"/></decisionService>'
            % (k, k, k, type_ref, k)
        )
        # `MSvc<k>`: the same value assembled by a decision service from SEVERAL output decisions (one per context entry,
        # each decision's variable carrying the entry's name); for values that are not contexts of >= 2 entries it is Svc<k> again
        if multi_output_parts(v):
            outs = []
            for j, (n, x) in enumerate(v["c"]):
                parts.append('<decision name="Part%d_%d" id="_part%d_%d"><variable name="%s"/><literalExpression><text>%s</text></literalExpression></decision>' % (k, j, k, j, xml_escape(n), xml_escape(feel_literal(x))))
                outs.append('<outputDecision href="#_part%d_%d"/>' % (k, j))
            parts.append('<decisionService name="MSvc%d" id="_msvc%d"><variable name="MSvc%d" typeRef="%s"/>%s</decisionService>' % (k, k, k, type_ref, "".join(outs)))
        else:
            parts.append('<decisionService name="MSvc%d" id="_msvc%d"><variable name="MSvc%d" typeRef="%s"/><outputDecision href="#_raw%d"/></decisionService>' % (k, k, k, type_ref, k))
    parts.append(
        '<businessKnowledgeModel name="Bkm" id="_bkm"><variable name="Bkm" typeRef="%s"/><encapsulatedLogic>'
        '<formalParameter name="x"/><literalExpression><text>x</text></literalExpression></encapsulatedLogic></businessKnowledgeModel>' % type_ref
    )
    return _wrap("\n".join(parts))


# --------------------------------------------------------------------------------------------
# the oracle: a direct transcription of the statement


class Undecided(Exception):
    """The statement does not settle this case."""


def _allowed(node, v):
    """v (already of the right simple type) satisfies the node's allowed values."""
    if not node.get("av"):
        return True
    return AV_PRED[leaf_type(node)](v)


def conforms(node, v):
    """`v` conforms to the type declared by `node` at every position.
    null: conforms to every type in the FEEL lattice, but inside a collection the statement does not
    say whether a null item keeps the collection conforming -> Undecided."""
    if v is None and node["coll"]:
        return True  # null conforms to every type, a collection type included (only a null ITEM is unsettled)
    if node["coll"]:
        if not isinstance(v, list):
            return False
        elem = uncoll(node)
        for x in v:
            if x is None:
                raise Undecided("null item in a collection")
            if not conforms(elem, x):
                return False
        return True
    if v is None:
        return True
    if node["k"] == "simple":
        return kind_of(v) == node["t"] and _allowed(node, v)
    if node["k"] == "ref":
        return conforms(node["to"], v) and (not node["av"] or _allowed(node, v))
    if kind_of(v) != "context":
        return False
    for name, c in node["cs"]:
        found, x = ctx_get(v, name)
        if not found:
            raise Undecided("missing component")
        if not conforms(c, x):
            return False
    if len(v["c"]) != len(node["cs"]):
        raise Undecided("extra entries")
    return True


def conform(node, v, lenient=False):
    """INPUT side. A value that conforms arrives unchanged; otherwise it is replaced by null - for a
    component type only the non-conforming component is.
    `lenient` = the reading in which the singleton-list conversions the statement grants to RESULTS are
    also applied to inputs (used only to recognise what the statement leaves open)."""
    if node["coll"]:
        elem = uncoll(node)
        if not isinstance(v, list):
            if lenient and v is not None and conforms(elem, v):
                return [v]
            return None
        out = []
        for x in v:
            if x is None:
                raise Undecided("null item in a collection")
            r = conform(elem, x, lenient)  # an item of a component type: the component rule applies inside it
            if r is None:
                return None  # an item that does not conform: the collection is replaced by null as a whole
            out.append(r)
        return out
    if v is None:
        return None
    if lenient and isinstance(v, list) and len(v) == 1 and list_elem(node) is None and conforms(node, v[0]):
        return v[0]
    if node["k"] == "simple":
        return v if conforms(node, v) else None
    if node["k"] == "ref":
        r = conform(node["to"], v, lenient)
        if node["av"] and r is not None and not _allowed(node, r):
            return None
        return r
    if kind_of(v) != "context":
        return None
    entries = []
    for name, c in node["cs"]:
        found, x = ctx_get(v, name)
        if not found:
            raise Undecided("missing component")
        entries.append((name, conform(c, x, lenient)))
    if len(v["c"]) != len(node["cs"]):
        raise Undecided("extra entries")
    return ctx(entries)


def root_node(tree):
    return simple(tree["builtin"]) if "builtin" in tree else tree["root"]


def conform_tree(tree, v, lenient=False):
    return conform(root_node(tree), v, lenient)


def list_elem(node):
    """Element node when `node` denotes a list type (directly or through plain references), else None."""
    if node["coll"]:
        return uncoll(node)
    if node["k"] == "ref":
        return list_elem(node["to"])
    return None


def coerce_result(node, v):
    """OUTPUT side. Unchanged when it conforms; wrapped into / unwrapped from a singleton list when that
    makes it conform; null otherwise.  Returns (expected, how)."""
    if conforms(node, v):
        return v, "unchanged"
    elem = list_elem(node)
    if elem is not None and conforms(elem, v):
        return [v], "wrapped"
    if isinstance(v, list) and len(v) == 1 and conforms(node, v[0]):
        return v[0], "unwrapped"
    return None, "null"


def coerce_tree(tree, v):
    return coerce_result(root_node(tree), v)


# --------------------------------------------------------------------------------------------
# value generation


def good(node, which=0):
    """A value conforming to `node` at every position."""
    if node["coll"]:
        e = uncoll(node)
        return [good(e, 0), good(e, 1)]
    if node["k"] == "simple":
        return GOOD[node["t"]][which]
    if node["k"] == "ref":
        return good(node["to"], which)
    return ctx((n, good(c, which)) for n, c in node["cs"])


def _scalar_not(node):
    """A scalar that conforms to nothing in `node` (used where a list or a context is declared)."""
    t = leaf_type(node)
    return GOOD["number"][0] if t != "number" else GOOD["string"][0]


def violations(node):
    """Yields (value, kind, at) with exactly ONE violated position, everything else conforming.
    `at` = the node where the violation sits."""
    if node["coll"]:
        e = uncoll(node)
        ge = good(e)
        yield ge, "scalar-for-collection", node  # conforms to the element type
        if list_elem(e) is None:
            yield _scalar_not(e), "wrong-scalar-for-collection", node
        yield [], "empty-collection", node  # conforming
        yield [good(node)], "nested-singleton", node  # [[..]] : one level too many
        yield [[]], "nested-singleton-of-empty", node  # unwraps to the (conforming) empty collection
        yield [ge, None], "null-item", node
        flip = 0
        for v, kind, at in violations(e):
            if kind in ("null", "nested-singleton-of-empty"):
                continue  # null = null-item; [[]] next to a non-empty item is the known heterogeneous-list finding, kept at top level only
            flip += 1
            yield ([v, good(e, 1)] if flip % 2 else [good(e, 0), v]), kind, at
        return
    if node["k"] == "simple":
        for t2 in TYPES:
            if t2 != node["t"]:
                yield GOOD[t2][0], "wrong-simple-type", node
        yield None, "null", node
        g = good(node)
        yield [g], "singleton-for-scalar", node
        yield [g, good(node, 1)], "list-for-scalar", node
        yield ctx([("a", g)]), "context-for-scalar", node
        if node["av"]:
            yield DISALLOWED[node["t"]], "disallowed-value", node
        return
    if node["k"] == "ref":
        for v, kind, at in violations(node["to"]):
            yield v, kind, at
        if node["av"]:
            yield DISALLOWED[leaf_type(node)], "disallowed-value", node
        return
    g = good(node)
    yield GOOD["number"][0], "scalar-for-component", node
    yield [g], "singleton-for-component", node
    if len(node["cs"]) >= 1:
        # a singleton whose element conforms without being of exactly the declared type (a null component)
        yield [ctx([(n, (None if j == 0 else good(cj))) for j, (n, cj) in enumerate(node["cs"])])], "singleton-with-null-component", node
    yield [g, good(node, 1)], "list-for-component", node
    yield None, "null", node
    for i, (name, c) in enumerate(node["cs"]):
        for v, kind, at in violations(c):
            entries = [(n, (v if j == i else good(cj))) for j, (n, cj) in enumerate(node["cs"])]
            yield ctx(entries), kind, at


def values_for(tree):
    """[(value, kind, at-node)] : one conforming value first, then one value per violation."""
    node = root_node(tree)
    out = [(good(node), "conforming", node)]
    seen = {json.dumps(out[0][0], sort_keys=True)}
    for v, kind, at in violations(node):
        key = json.dumps(v, sort_keys=True) + "|" + kind
        if key in seen:
            continue
        seen.add(key)
        out.append((v, kind, at))
    return out


# --------------------------------------------------------------------------------------------
# where expected and observed part ways (for signatures)


def divergence(node, exp, obs, inp=None):
    """(node, exp-part, obs-part, input-part) at the innermost node where `exp` and `obs` stop having the
    same structure; None when they are equal. `inp` is followed in parallel while it has the same
    structure (else the part is reported as the marker NO_INPUT)."""
    if same(exp, obs):
        return None
    here = (node, exp, obs, inp)
    if node["coll"]:
        if isinstance(exp, list) and isinstance(obs, list) and len(exp) == len(obs):
            e = uncoll(node)
            inps = inp if isinstance(inp, list) and len(inp) == len(exp) else [NO_INPUT] * len(exp)
            for x, y, z in zip(exp, obs, inps):
                d = divergence(e, x, y, z)
                if d is not None:
                    return d
        return here
    if node["k"] == "ref":
        if node["av"]:
            return here
        return divergence(node["to"], exp, obs, inp) or here
    if node["k"] == "comp" and kind_of(exp) == "context" and kind_of(obs) == "context":
        for name, c in node["cs"]:
            fe, x = ctx_get(exp, name)
            fo, y = ctx_get(obs, name)
            fi, z = ctx_get(inp, name) if kind_of(inp) == "context" else (False, None)
            if fe and fo:
                d = divergence(c, x, y, z if fi else NO_INPUT)
                if d is not None:
                    return d
        return here
    return here


NO_INPUT = {"x": "no-input-part"}


def _has_null(v):
    if v is None:
        return True
    if isinstance(v, list):
        return any(_has_null(x) for x in v)
    if kind_of(v) == "context":
        return any(_has_null(x) for _, x in v["c"])
    return False


def observed_kind(exp, obs, inp):
    """How the observed part relates to the offered part: the right-hand side of a signature."""
    if obs is None:
        return "null"
    if inp is not NO_INPUT:
        if same(obs, inp):
            return "passed-unchanged"
        if same(obs, [inp]):
            return "wrapped"
        if isinstance(inp, list) and len(inp) == 1 and same(obs, inp[0]):
            return "unwrapped"
        if isinstance(obs, list) and isinstance(inp, list) and len(obs) == len(inp) and any(o is None and i is not None for o, i in zip(obs, inp)):
            return "item-null"
        if isinstance(obs, list) and _has_null(obs) and not _has_null(inp):
            return "nested-item-null"
        if kind_of(obs) == "context" and kind_of(inp) == "context" and any(x is None for _, x in obs["c"]):
            return "component-null"
    return "other-" + kind_of(obs)
