"""G-DRG: generator of acyclic decision requirement graphs, their DMN 1.3 XML and their reference
evaluation (C04, also used by C13 and C20).

A model is a dict:
  inputs:   [{name, type}]                                      type in number|string
  bkms:     [{name, params:[p..], kind, body..., requires:[bkm names]}]
  decisions:[{name, kind, requires_inputs:[..], requires_decisions:[..], requires_bkms:[..], requires_services:[..], ...logic}]
  services: [{name, inputs:[input names], input_decisions:[..], encapsulated:[..], outputs:[..]}]
Logic kinds: literal | context | invocation | relation | function | table.
Expressions are rfeel tuple ASTs (rendered with rfeel.render, evaluated with rfeel.ev).
"""
from decimal import Decimal
from xml.sax.saxutils import escape, quoteattr

import rfeel

NUMS = ["0", "1", "2", "3", "5", "10", "0.5", "2.5", "100", "7"]
STRS = ["a", "b", "ab", "x", ""]


class G:
    def __init__(self, rng):
        self.rng = rng

    # ---- expressions over typed names -------------------------------------------------------
    def num_expr(self, nums, depth=2, calls=()):
        """number-valued expression over names in `nums` (names of number-valued things) and callable (name, arity)"""
        r = self.rng
        if depth <= 0 or r.random() < 0.3:
            if nums and r.random() < 0.75:
                return ("name", r.choice(nums))
            return ("num", r.choice(NUMS))
        k = r.random()
        if calls and k < 0.25:
            name, arity = r.choice(calls)
            return ("call", ("name", name), [self.num_expr(nums, depth - 1) for _ in range(arity)])
        if r.random() < 0.12:
            # a built-in function: a free name of the logic that no requirement binds
            b = r.choice(["abs", "floor", "max", "min", "sum", "count"])
            x, y = self.num_expr(nums, depth - 1), self.num_expr(nums, depth - 1)
            if b in ("abs", "floor"):
                return ("call", ("name", b), [x])
            if b in ("max", "min"):
                return ("call", ("name", b), [x, y])
            return ("call", ("name", b), [("list", [x, y])])
        if k < 0.75:
            return (r.choice(["add", "sub", "mul"]), self.num_expr(nums, depth - 1, calls), self.num_expr(nums, depth - 1, calls))
        if k < 0.9:
            return ("if", ("cmp", r.choice(["<", ">", "<=", ">=", "=", "!="]), self.num_expr(nums, depth - 1), self.num_expr(nums, depth - 1)), self.num_expr(nums, depth - 1, calls), self.num_expr(nums, depth - 1, calls))
        return ("neg", self.num_expr(nums, depth - 1, calls))

    def str_expr(self, strs, depth=1):
        r = self.rng
        if depth <= 0 or r.random() < 0.5:
            if strs and r.random() < 0.7:
                return ("name", r.choice(strs))
            return ("str", r.choice(STRS))
        return ("add", self.str_expr(strs, depth - 1), self.str_expr(strs, depth - 1))

    # ---- model ------------------------------------------------------------------------------
    def model(self, index=0, shape=None):
        r = self.rng
        shape = shape or r.choice(["plain", "diamond", "bkm-chain", "service", "service-and-direct", "multi-output-service", "function", "mixed"])
        n_in = r.randint(1, 4)
        inputs = [{"name": "In%d" % k, "type": r.choice(["number", "number", "string"])} for k in range(1, n_in + 1)]
        if not any(i["type"] == "number" for i in inputs):
            inputs[0]["type"] = "number"
        m = {"name": "model%d" % index, "shape": shape, "inputs": inputs, "bkms": [], "decisions": [], "services": []}
        if shape == "typed-service":
            return self._typed_service_model(m)
        # knowledge models
        n_bkm = {"bkm-chain": 3, "plain": r.choice([0, 1]), "diamond": r.choice([0, 1]), "mixed": r.choice([1, 2, 3])}.get(shape, r.choice([0, 1, 2]))
        for k in range(1, n_bkm + 1):
            name = "Kn%d" % k
            params = ["pa", "pb"][: r.choice([1, 2, 2])]
            num_inputs = [i["name"] for i in inputs if i["type"] == "number"]
            if r.random() < 0.35:
                # formal parameters that carry the names of input data (the X := X habit of real models):
                # binding formulas and earlier bindings then share names
                cand = num_inputs[:]
                r.shuffle(cand)
                params = [cand[j] if j < len(cand) else p for j, p in enumerate(params)]
            requires = []
            calls = []
            if k > 1 and (shape == "bkm-chain" or r.random() < 0.5):
                prev = m["bkms"][k - 2]
                requires.append(prev["name"])
                calls.append((prev["name"], len(prev["params"])))
            kind = r.choice(["literal", "literal", "context", "table", "relation", "invocation"])
            if kind == "invocation" and not (k > 1 and m["bkms"]):
                kind = "literal"
            b = {"name": name, "params": params, "kind": kind, "requires": requires}
            if kind == "invocation":
                # encapsulated logic = boxed invocation of an earlier knowledge model with a numeric result
                cands = [x for x in m["bkms"] if x["kind"] in ("literal", "table") or (x["kind"] == "context" and x.get("result") is not None)]
                if cands:
                    callee = r.choice(cands)
                    if callee["name"] not in requires:
                        requires.append(callee["name"])
                    b["body"] = ("__invocation__", callee["name"], [(prm, self.num_expr(params, 1)) for prm in callee["params"]])
                else:
                    b["kind"] = kind = "literal"
            if kind == "relation":
                b["body"] = ("__relation__", ["ra", "rb"], [[self.num_expr(params, 1), self.num_expr(params, 1)] for _ in range(r.randint(1, 2))])
            if kind == "literal":
                b["body"] = self.num_expr(params, 2, calls)
            elif kind == "context":
                b["entries"] = [("ea", self.num_expr(params, 1, calls)), ("eb", self.num_expr(params + ["ea"], 1))]
                b["result"] = self.num_expr(params + ["ea", "eb"], 1) if r.random() < 0.7 else None
            elif kind == "table":
                b["table"] = self.table(params[0])
            m["bkms"].append(b)
        # decisions, in dependency order
        n_dec = r.randint(2, 7)
        kinds_cycle = ["literal", "context", "invocation", "relation", "table", "literal", "function", "call-function"]
        r.shuffle(kinds_cycle)
        result_type = {}  # decision name -> 'number' | 'string' | 'context' | 'list' | 'function' | 'other'
        for k in range(1, n_dec + 1):
            name = "De%d" % k
            prev = [d["name"] for d in m["decisions"]]
            req_in = [i["name"] for i in inputs if r.random() < 0.6]
            req_dec = [p for p in prev if r.random() < 0.5]
            if shape == "diamond" and k == n_dec and len(prev) >= 3:
                req_dec = prev[-2:]  # both require prev[-3] below
            if shape == "diamond" and k in (n_dec - 1, n_dec - 2) and len(prev) >= 1:
                req_dec = [prev[0]] + [p for p in req_dec if p != prev[0]]
            kind = kinds_cycle[(k - 1) % len(kinds_cycle)]
            req_bkm = []
            if kind == "invocation" and not m["bkms"]:
                kind = "literal"
            fn_decs = [p for p in prev if result_type.get(p) == "function"]
            if kind == "call-function" and not fn_decs:
                kind = "literal"
            d = {"name": name, "kind": kind, "requires_inputs": req_in, "requires_decisions": req_dec, "requires_bkms": req_bkm, "requires_services": []}
            nums = [i for i in req_in if self._type(m, i) == "number"] + [p for p in req_dec if result_type.get(p) == "number"]
            strs = [i for i in req_in if self._type(m, i) == "string"] + [p for p in req_dec if result_type.get(p) == "string"]
            ctxs = [p for p in req_dec if result_type.get(p) == "context"]
            calls = []
            if m["bkms"] and r.random() < 0.5:
                b = r.choice(m["bkms"])
                req_bkm.append(b["name"])
                calls.append((b["name"], len(b["params"])))
            extra_nums = [("path", ("name", c), "ea") for c in ctxs]
            if kind == "literal":
                if strs and r.random() < 0.3:
                    d["expr"] = self.str_expr(strs, 2)
                    result_type[name] = "string"
                else:
                    e = self.num_expr(nums, 3, calls)
                    if extra_nums and r.random() < 0.6:
                        e = ("add", e, r.choice(extra_nums))
                    d["expr"] = e
                    result_type[name] = "number"
                if not _calls_in(d["expr"]) and _names(d["expr"]) <= {i["name"] for i in inputs} and r.random() < 0.6:
                    d["type_ref"] = result_type[name]  # a typed output variable (no invocation inside: the value is of that type or null)
            elif kind == "context":
                d["entries"] = [("ea", self.num_expr(nums, 2, calls)), ("eb", self.num_expr(nums + ["ea"], 1)), ("ec", self.str_expr(strs, 1))]
                more = []
                if r.random() < 0.5:
                    # boxed expressions nested in context entries: relation, nested context with a result, decision table over an
                    # earlier entry, boxed invocation of a required knowledge model (numeric results only)
                    d["entries"].append(("ed", ("__relation__", ["ra", "rb"], [[self.num_expr(nums + ["ea"], 1), self.num_expr(nums + ["eb"], 1)] for _ in range(r.randint(1, 2))])))
                    d["entries"].append(("ee", ("__ctx_result__", [("na", self.num_expr(nums + ["ea", "eb"], 1)), ("nb", self.num_expr(nums + ["na"], 1))], self.num_expr(nums + ["na", "nb", "ea"], 1))))
                    d["entries"].append(("ef", ("__table__", self.table("ea"), None)))
                    more = ["ee"]
                    numeric_bkms = [b for b in m["bkms"] if b["kind"] == "literal" or (b["kind"] == "context" and b.get("result") is not None)]
                    if numeric_bkms:
                        b = r.choice(numeric_bkms)
                        if b["name"] not in req_bkm:
                            req_bkm.append(b["name"])
                        d["entries"].append(("eg", ("__invocation__", b["name"], [(prm, self.num_expr(nums + ["ea", "ee"], 1)) for prm in b["params"]])))
                        more.append("eg")
                if r.random() < 0.5:
                    d["result"] = self.num_expr(nums + ["ea", "eb"] + more, 1)
                    result_type[name] = "number"
                else:
                    d["result"] = None
                    result_type[name] = "context"
            elif kind == "invocation":
                b = r.choice(m["bkms"])
                if b["name"] not in req_bkm:
                    req_bkm.append(b["name"])
                d["callee"] = b["name"]
                d["bindings"] = [(p, self.num_expr(nums, 1)) for p in b["params"]]
                result_type[name] = "list" if b["kind"] == "relation" else "number" if b["kind"] != "context" or b.get("result") is not None else "context"
                if b["kind"] == "table":
                    result_type[name] = "number"
            elif kind == "relation":
                d["columns"] = ["ca", "cb"]
                d["rows"] = [[self.num_expr(nums, 1), self.str_expr(strs, 1)] for _ in range(r.randint(1, 3))]
                result_type[name] = "list"
            elif kind == "table":
                src = r.choice(nums) if nums else None
                if src is None:
                    d["kind"] = "literal"
                    d["expr"] = ("num", r.choice(NUMS))
                else:
                    d["table"] = self.table(src)
                result_type[name] = "number"
            elif kind == "function":
                d["params"] = ["fa", "fb"][: r.choice([1, 2])]
                # 30 %: the function closes over names of its defining decision's scope (lexical closure)
                d["captures"] = bool(nums) and r.random() < 0.3
                d["body"] = self.num_expr(d["params"] + (nums if d["captures"] else []), 2)
                result_type[name] = "function"
            elif kind == "call-function":
                f = r.choice(fn_decs)
                fd = [x for x in m["decisions"] if x["name"] == f][0]
                if f not in req_dec:
                    req_dec.append(f)
                d["kind"] = "literal"
                d["expr"] = ("add", ("call", ("name", f), [self.num_expr(nums, 1) for _ in fd["params"]]), self.num_expr(nums, 1))
                result_type[name] = "number"
            m["decisions"].append(d)
        m["result_type"] = result_type
        # decision services
        if shape in ("service", "service-and-direct", "multi-output-service", "mixed") and len(m["decisions"]) >= 2:
            decs = m["decisions"]
            for sk in range(1, (2 if shape == "mixed" else 1) + 1):
                out = [decs[-1]["name"]] if shape != "multi-output-service" else [decs[-1]["name"], decs[-2]["name"]]
                closure = self.closure(m, out)
                cand_inputs = [x for x in closure if x not in out and result_type.get(x) in ("number", "string")]
                input_decisions = [x for x in cand_inputs if r.random() < 0.4][:2]
                # encapsulated: closure of outputs without crossing input decisions
                enc = [x for x in self.closure(m, out, stop=input_decisions) if x not in out and x not in input_decisions]
                needed_inputs = sorted({i for x in out + enc for i in self._dec(m, x)["requires_inputs"]})
                s = {"name": "Sv%d" % sk, "inputs": needed_inputs, "input_decisions": input_decisions, "encapsulated": enc, "outputs": out}
                od = self._dec(m, out[0])
                if len(out) == 1 and od.get("type_ref") and r.random() < 0.7:
                    s["type_ref"] = od["type_ref"]  # the type of the service's own result, not of its parameters
                m["services"].append(s)
                if shape in ("service-and-direct", "mixed") and sk == 1:
                    # a decision requiring the output decision directly AND through the service (as a function)
                    nums = [i["name"] for i in inputs if i["type"] == "number"]
                    args = [("name", i) if i in [x["name"] for x in inputs] else ("num", "1") for i in needed_inputs] + [(("num", r.choice(NUMS)) if result_type.get(x) == "number" else ("str", r.choice(STRS))) for x in input_decisions]
                    d = {"name": "De%d" % (len(decs) + 1), "kind": "literal", "requires_inputs": [i["name"] for i in inputs], "requires_decisions": [out[0]], "requires_bkms": [], "requires_services": [s["name"]],
                         "expr": ("list", [("name", out[0]), ("call", ("name", s["name"]), args)])}
                    m["decisions"].append(d)
                    result_type[d["name"]] = "list"
        return m

    def _typed_service_model(self, m):
        """typed decisions feeding a TYPED decision service through input decisions of OTHER types; the service is invoked by
        name and as a function (positionally and by name) with typed arguments"""
        r = self.rng
        m["inputs"] = [{"name": "In1", "type": "number"}, {"name": "In2", "type": "string"}, {"name": "In3", "type": "number"}]

        def dec(name, expr, ty, req_in, req_dec, req_svc=()):
            d = {"name": name, "kind": "literal", "expr": expr, "requires_inputs": list(req_in), "requires_decisions": list(req_dec), "requires_bkms": [], "requires_services": list(req_svc)}
            if ty:
                d["type_ref"] = ty
            m["decisions"].append(d)
            return d

        word = r.choice(STRS)
        dec("De1", ("add", ("name", "In2"), ("str", r.choice(STRS))), "string", ["In2"], [])
        dec("De2", self.num_expr(["In1", "In3"], 2), "number", ["In1", "In3"], [])
        out_ty = r.choice(["number", "string"])
        if out_ty == "number":
            out_expr = ("if", ("cmp", "=", ("name", "De1"), ("str", word)), ("name", "De2"), ("add", ("name", "De2"), ("name", "In3")))
        else:
            out_expr = ("add", ("name", "De1"), ("if", ("cmp", ">", ("name", "De2"), ("num", "1")), ("str", "big"), ("str", "small")))
        dec("De3", out_expr, out_ty, ["In3"], ["De1", "De2"])
        ins = r.choice([["De1"], ["De2"], ["De1", "De2"]])
        enc = [x for x in ("De1", "De2") if x not in ins]
        needed = sorted({i for x in ["De3"] + enc for i in self._dec(m, x)["requires_inputs"]})
        sv = {"name": "Sv1", "inputs": needed, "input_decisions": ins, "encapsulated": enc, "outputs": ["De3"], "type_ref": out_ty}
        m["services"].append(sv)
        # arguments: input data by name, input decisions by typed literals
        def arg(x):
            return ("num", r.choice(NUMS)) if x == "De2" else ("str", r.choice(STRS + [word]))
        pos = [("name", i) for i in needed] + [arg(x) for x in ins]
        named = [(i, ("name", i)) for i in needed] + [(x, arg(x)) for x in ins]
        r.shuffle(named)
        dec("De4", ("list", [("name", "De3"), ("call", ("name", "Sv1"), pos), ("callnamed", ("name", "Sv1"), named)]), None, ["In1", "In2", "In3"], ["De3"], ["Sv1"])
        m["result_type"] = {"De1": "string", "De2": "number", "De3": out_ty, "De4": "list"}
        return m

    def table(self, src):
        r = self.rng
        a, b = sorted([Decimal(r.choice(["0", "1", "2", "5", "10"])), Decimal(r.choice(["3", "7", "20", "50"]))])
        pol = r.choice(["U", "F", "C+", "C", "A"])
        outs = [Decimal(r.choice(NUMS)) for _ in range(4)]
        rules = [(("cmp", "<", a), outs[0]), (("rng", a, True, b, True), outs[1]), (("cmp", ">", b), outs[2])]
        if pol in ("F", "C+", "C"):
            rules.append((("cmp", ">=", a), outs[3]))
        if pol == "A":
            rules.append((("cmp", ">=", b), outs[1]))
        t = {"src": src, "policy": pol, "rules": rules, "default": None}
        if r.random() < 0.5:
            # a gap in the rules (nothing matches inside [a..b]) and, mostly, a default output entry that is an
            # expression over the input, evaluated per call in the caller's scope
            t["rules"] = [x for x in rules if x[0][0] != "rng"]
            if pol not in ("F", "C+", "C"):
                pass
            else:
                t["rules"] = [x for x in t["rules"] if not (x[0][0] == "cmp" and x[0][1] == ">=")]
            if r.random() < 0.75:
                t["default"] = (r.choice(["add", "mul", "sub"]), ("name", src), ("num", r.choice(["2", "0.5", "100"])))
        return t

    # ---- helpers ----------------------------------------------------------------------------
    @staticmethod
    def _type(m, name):
        for i in m["inputs"]:
            if i["name"] == name:
                return i["type"]
        return None

    @staticmethod
    def _dec(m, name):
        for d in m["decisions"]:
            if d["name"] == name:
                return d
        raise KeyError(name)

    def closure(self, m, names, stop=()):
        seen, todo = [], list(names)
        while todo:
            x = todo.pop()
            if x in seen:
                continue
            seen.append(x)
            if x in stop:
                continue
            for y in self._dec(m, x)["requires_decisions"]:
                todo.append(y)
        return seen


# ------------------------------------------------------------------------------------------------
# XML
# ------------------------------------------------------------------------------------------------
def _lit(e):
    return "<literalExpression><text>%s</text></literalExpression>" % escape(rfeel.render(e))


def _table_xml(t):
    pol = {"U": 'hitPolicy="UNIQUE"', "F": 'hitPolicy="FIRST"', "A": 'hitPolicy="ANY"', "C": 'hitPolicy="COLLECT"', "C+": 'hitPolicy="COLLECT" aggregation="SUM"'}[t["policy"]]
    out = "<output/>" if t.get("default") is None else "<output><defaultOutputEntry><text>%s</text></defaultOutputEntry></output>" % escape(rfeel.render(t["default"]))
    p = ["<decisionTable %s>" % pol, '<input><inputExpression typeRef="number"><text>%s</text></inputExpression></input>' % escape(t["src"]), out]
    for spec, out in t["rules"]:
        if spec[0] == "cmp":
            text = "%s %s" % (spec[1], format(spec[2], "f"))
        else:
            text = "%s%s..%s%s" % ("[" if spec[2] else "(", format(spec[1], "f"), format(spec[3], "f"), "]" if spec[4] else ")")
        p.append("<rule><inputEntry><text>%s</text></inputEntry><outputEntry><text>%s</text></outputEntry></rule>" % (escape(text), format(out, "f")))
    p.append("</decisionTable>")
    return "".join(p)


def to_xml(m):
    # the NAME of the model is, in turn, its own, that of one of its decisions, of an input data element, of a knowledge model
    # (nothing in DMN keeps these apart; the names of the elements are what evaluation goes by)
    defs_name = m["name"]
    digits = "".join(ch for ch in m["name"] if ch.isdigit())
    k = int(digits) % 4 if digits else 0
    if k == 1 and m["decisions"]:
        defs_name = m["decisions"][-1]["name"]
    elif k == 2 and m["inputs"]:
        defs_name = m["inputs"][0]["name"]
    elif k == 3 and m["bkms"]:
        defs_name = m["bkms"][0]["name"]
    p = ['<?xml version="1.0" encoding="UTF-8"?>', '<definitions namespace="https://verif/%s" name="%s" id="_defs" xmlns="https://www.omg.org/spec/DMN/20191111/MODEL/">' % (m["name"], defs_name)]
    for i in m["inputs"]:
        p.append('<inputData name="%s" id="_%s"><variable name="%s" typeRef="%s"/></inputData>' % (i["name"], i["name"], i["name"], i["type"]))
    for b in m["bkms"]:
        p.append('<businessKnowledgeModel name="%s" id="_%s"><variable name="%s"/>' % (b["name"], b["name"], b["name"]))
        for req in b["requires"]:
            p.append('<knowledgeRequirement><requiredKnowledge href="#_%s"/></knowledgeRequirement>' % req)
        p.append("<encapsulatedLogic>")
        for prm in b["params"]:
            p.append('<formalParameter name="%s" typeRef="number"/>' % prm)
        if b["kind"] == "literal":
            p.append(_lit(b["body"]))
        elif b["kind"] == "context":
            p.append(_context_xml(b["entries"], b["result"]))
        elif b["kind"] in ("relation", "invocation"):
            p.append(_expr_xml(b["body"]))
        else:
            p.append(_table_xml(b["table"]))
        p.append("</encapsulatedLogic></businessKnowledgeModel>")
    for d in m["decisions"]:
        p.append('<decision name="%s" id="_%s"><variable name="%s"%s/>' % (d["name"], d["name"], d["name"], (' typeRef="%s"' % d["type_ref"]) if d.get("type_ref") else ""))
        for x in d["requires_inputs"]:
            p.append('<informationRequirement><requiredInput href="#_%s"/></informationRequirement>' % x)
        for x in d["requires_decisions"]:
            p.append('<informationRequirement><requiredDecision href="#_%s"/></informationRequirement>' % x)
        for x in d["requires_bkms"] + d["requires_services"]:
            p.append('<knowledgeRequirement><requiredKnowledge href="#_%s"/></knowledgeRequirement>' % x)
        k = d["kind"]
        if k == "literal":
            p.append(_lit(d["expr"]))
        elif k == "context":
            p.append(_context_xml(d["entries"], d["result"]))
        elif k == "invocation":
            p.append("<invocation>" + _lit(("name", d["callee"])))
            for prm, e in d["bindings"]:
                p.append('<binding><parameter name="%s"/>%s</binding>' % (prm, _lit(e)))
            p.append("</invocation>")
        elif k == "relation":
            p.append("<relation>")
            for c in d["columns"]:
                p.append('<column name="%s"/>' % c)
            for row in d["rows"]:
                p.append("<row>" + "".join(_lit(e) for e in row) + "</row>")
            p.append("</relation>")
        elif k == "table":
            p.append(_table_xml(d["table"]))
        elif k == "function":
            if d.get("boxed"):
                p.append("<functionDefinition>" + "".join('<formalParameter name="%s" typeRef="number"/>' % x for x in d["params"]) + _lit(d["body"]) + "</functionDefinition>")
            else:
                p.append(_lit(("fundef", d["params"], d["body"])))
        p.append("</decision>")
    for s in m["services"]:
        p.append('<decisionService name="%s" id="_%s"><variable name="%s"%s/>' % (s["name"], s["name"], s["name"], (' typeRef="%s"' % s["type_ref"]) if s.get("type_ref") else ""))
        for x in s["outputs"]:
            p.append('<outputDecision href="#_%s"/>' % x)
        for x in s["encapsulated"]:
            p.append('<encapsulatedDecision href="#_%s"/>' % x)
        for x in s["input_decisions"]:
            p.append('<inputDecision href="#_%s"/>' % x)
        for x in s["inputs"]:
            p.append('<inputData href="#_%s"/>' % x)
        p.append("</decisionService>")
    p.append("</definitions>")
    return "\n".join(p)


def _expr_xml(e):
    """literal expression, or one of the boxed forms that may sit inside a context entry"""
    t = e[0]
    if t == "__ctx_result__":
        return _context_xml(e[1], e[2])
    if t == "__table__":
        return _table_xml(e[1])
    if t == "__relation__":
        return "<relation>" + "".join('<column name="%s"/>' % c for c in e[1]) + "".join("<row>" + "".join(_lit(x) for x in row) + "</row>" for row in e[2]) + "</relation>"
    if t == "__invocation__":
        return "<invocation>" + _lit(("name", e[1])) + "".join('<binding><parameter name="%s"/>%s</binding>' % (prm, _lit(x)) for prm, x in e[2]) + "</invocation>"
    return _lit(e)


def _context_xml(entries, result):
    p = ["<context>"]
    for name, e in entries:
        p.append('<contextEntry><variable name="%s"/>%s</contextEntry>' % (name, _expr_xml(e)))
    if result is not None:
        p.append("<contextEntry>%s</contextEntry>" % _expr_xml(result))
    p.append("</context>")
    return "".join(p)


# ------------------------------------------------------------------------------------------------
# reference evaluation
# ------------------------------------------------------------------------------------------------
class Ref:
    def __init__(self, m):
        self.m = m
        self.bkm_fn = {}

    def _dec_type(self, name):
        for d in self.m["decisions"]:
            if d["name"] == name:
                return d.get("type_ref")
        return None

    def coerce_input(self, ty, v):
        if v is None:
            return None
        if ty == "number":
            return v if isinstance(v, Decimal) else None
        if ty == "string":
            return v if isinstance(v, str) else None
        return v

    def table_value(self, t, x):
        if not isinstance(x, Decimal):
            x = None
        matching = []
        for spec, out in t["rules"]:
            if x is None:
                ok = False
            elif spec[0] == "cmp":
                ok = {"<": x < spec[2], "<=": x <= spec[2], ">": x > spec[2], ">=": x >= spec[2]}[spec[1]]
            else:
                ok = (x >= spec[1] if spec[2] else x > spec[1]) and (x <= spec[3] if spec[4] else x < spec[3])
            if ok:
                matching.append(out)
        pol = t["policy"]
        if not matching:
            if t.get("default") is not None:
                # the default output entry is evaluated in the scope of this call
                return rfeel.ev(t["default"], [{t["src"]: x}])
            return None
        if pol == "U":
            return matching[0] if len(matching) == 1 else None
        if pol == "F":
            return matching[0]
        if pol == "A":
            return matching[0] if all(v == matching[0] for v in matching) else None
        if pol == "C":
            return list(matching)
        s = matching[0]
        for v in matching[1:]:
            s = rfeel.arith("add", s, v)
        return s

    def bkm(self, name):
        if name in self.bkm_fn:
            return self.bkm_fn[name]
        b = [x for x in self.m["bkms"] if x["name"] == name][0]
        # formal parameters are typed `number`: arguments are coerced (conforming -> same, singleton list of a number -> the number, else null)
        env = [{"__typed__": "number"}, {r: self.bkm(r) for r in b["requires"]}]
        if b["kind"] in ("literal", "relation", "invocation"):
            fn = rfeel.Fn(list(b["params"]), b["body"], env)
        elif b["kind"] == "context":
            entries = [(n, e) for n, e in b["entries"]]
            if b["result"] is not None:
                body = ("__ctx_result__", entries, b["result"])
            else:
                body = ("ctx", entries)
            fn = rfeel.Fn(list(b["params"]), body, env)
        else:
            fn = rfeel.Fn(list(b["params"]), ("__table__", b["table"], self), env)
        self.bkm_fn[name] = fn
        return fn

    def decision(self, name, inputs, memo, supplied=None):
        """value of decision `name` for the input context `inputs` (dict); `supplied`: values given for input decisions"""
        if supplied and name in supplied:
            return supplied[name]
        if name in memo:
            return memo[name]
        d = [x for x in self.m["decisions"] if x["name"] == name][0]
        frame = {}
        for i in d["requires_inputs"]:
            ty = [x["type"] for x in self.m["inputs"] if x["name"] == i][0]
            frame[i] = self.coerce_input(ty, inputs.get(i))
        for r in d["requires_decisions"]:
            frame[r] = self.decision(r, inputs, memo, supplied)
        for b in d["requires_bkms"]:
            frame[b] = self.bkm(b)
        for s in d["requires_services"]:
            frame[s] = self.service_fn(s)
        env = [frame]
        k = d["kind"]
        if k == "literal":
            v = ev(d["expr"], env)
        elif k == "context":
            v = eval_context(d["entries"], d["result"], env)
        elif k == "invocation":
            f = frame.get(d["callee"])
            args = [(p, ev(e, env)) for p, e in d["bindings"]]
            v = ev(("callnamed", ("__value__", f), [(p, ("__value__", a)) for p, a in args]), env)
        elif k == "relation":
            v = [{c: ev(e, env) for c, e in zip(d["columns"], row)} for row in d["rows"]]
        elif k == "table":
            v = self.table_value(d["table"], frame.get(d["table"]["src"]))
        elif k == "function":
            v = rfeel.Fn(list(d["params"]), d["body"], env + [{"__closure__": bool(_names(d["body"]) - set(d["params"]))}])
        else:
            raise rfeel.Undecided(k)
        memo[name] = v
        return v

    def service_fn(self, sname):
        s = [x for x in self.m["services"] if x["name"] == sname][0]
        params = list(s["inputs"]) + list(s["input_decisions"])
        return rfeel.Fn(params, ("__service__", s, self), [])

    def service(self, s, inputs, supplied):
        # a value supplied for an input decision is a typed parameter when that decision's variable is typed
        supplied = {x: self.coerce_input(self._dec_type(x), v) for x, v in (supplied or {}).items()}
        memo = {}
        outs = [self.decision(o, inputs, memo, supplied) for o in s["outputs"]]
        if len(outs) == 1:
            return outs[0]
        return {o: v for o, v in zip(s["outputs"], outs)}

    def invocable(self, name, inputs):
        for d in self.m["decisions"]:
            if d["name"] == name:
                return self.decision(name, inputs, {})
        for s in self.m["services"]:
            if s["name"] == name:
                supplied = {x: inputs.get(x) for x in s["input_decisions"]}
                return self.service(s, inputs, supplied)
        for b in self.m["bkms"]:
            if b["name"] == name:
                f = self.bkm(name)
                args = [inputs.get(p) if isinstance(inputs.get(p), Decimal) else None for p in b["params"]]
                return ev(("call", ("__value__", f), [("__value__", a) for a in args]), [{}])
        raise KeyError(name)


def _names(e):
    out = set()
    if isinstance(e, tuple) and e and e[0] == "name":
        out.add(e[1])
    elif isinstance(e, (tuple, list)):
        for x in e:
            out |= _names(x)
    return out


def _calls_in(e):
    """true when the expression invokes something that is not one of the numeric built-ins (its result kind is then not known)"""
    if isinstance(e, tuple):
        if e and e[0] == "call" and not (e[1][0] == "name" and e[1][1] in BUILTINS):
            return True
        if e and e[0] == "path":
            return True
        return any(_calls_in(x) for x in e[1:])
    if isinstance(e, list):
        return any(_calls_in(x) for x in e)
    return False


BUILTINS = ("abs", "floor", "max", "min", "sum", "count")


def builtin(name, args):
    """the few built-in functions the generated logic calls, on numbers only (anything else: not decided here, C08's subject)"""
    import decimal

    flat = args[0] if name in ("sum", "count") and len(args) == 1 and isinstance(args[0], list) else args
    if name == "count":
        return Decimal(len(flat))
    if not flat or not all(isinstance(a, Decimal) for a in flat):
        raise rfeel.Undecided("built-in over non-numbers")
    if name == "abs":
        return flat[0].copy_abs()
    if name == "floor":
        return flat[0].to_integral_value(rounding=decimal.ROUND_FLOOR)
    if name == "max":
        return max(flat)
    if name == "min":
        return min(flat)
    acc = flat[0]
    for a in flat[1:]:
        acc = rfeel.arith("add", acc, a)
    return acc


def eval_context(entries, result, env):
    frame = {}
    env2 = env + [frame]
    for n, e in entries:
        frame[n] = ev(e, env2)
    if result is not None:
        return ev(result, env2)
    return dict(frame)


def ev(e, env):
    """rfeel.ev extended with the synthetic nodes used for DMN boxed logic"""
    t = e[0]
    if t == "__value__":
        return e[1]
    if t == "__ctx_result__":
        return eval_context(e[1], e[2], env)
    if t == "__table__":
        return Ref.table_value(e[2], e[1], rfeel.lookup(env, e[1]["src"]))
    if t == "__relation__":
        return [{c: ev(x, env) for c, x in zip(e[1], row)} for row in e[2]]
    if t == "__invocation__":
        # boxed invocation: every binding formula is evaluated in the caller's scope, then the callee is applied by name
        args = [(prm, ("__value__", ev(x, env))) for prm, x in e[2]]
        return ev(("callnamed", ("name", e[1]), args), env)
    if t == "__service__":
        s, ref = e[1], e[2]
        frame = env[-1]
        inputs = {}
        for i in s["inputs"]:
            ty = [x["type"] for x in ref.m["inputs"] if x["name"] == i][0]
            inputs[i] = ref.coerce_input(ty, frame.get(i))
        supplied = {x: frame.get(x) for x in s["input_decisions"]}
        return ref.service(s, inputs, supplied)
    if t == "call" and e[1][0] == "name" and e[1][1] in BUILTINS and rfeel.lookup(env, e[1][1]) is None:
        return builtin(e[1][1], [ev(a, env) for a in e[2]])
    if t in ("call", "callnamed"):
        # evaluate with this extended evaluator so that synthetic bodies work
        f = ev(e[1], env)
        if not isinstance(f, rfeel.Fn):
            if f is None or rfeel.kind(f) in ("number", "string", "boolean", "list", "context"):
                return None
            raise rfeel.Undecided("call of " + rfeel.kind(f))
        if rfeel.lookup(f.env, "__closure__"):
            rfeel.EVENTS.add("closure-call")
        typed = rfeel.lookup(f.env, "__typed__")

        def co(v):
            if typed != "number":
                return v
            if isinstance(v, Decimal):
                return v
            if isinstance(v, list) and len(v) == 1 and isinstance(v[0], Decimal) and t == "call":
                return v[0]
            if v is None:
                return None
            # a non-conforming argument for a typed formal parameter: typed parameters are C11's subject and the
            # boxed invocation does not coerce at all
            raise rfeel.Undecided("non-conforming argument for a typed parameter")

        if t == "call":
            args = [co(ev(a, env)) for a in e[2]]
            if len(args) != len(f.params):
                return None
            return ev(f.body, f.env + [dict(zip(f.params, args))])
        args = [(n, co(ev(a, env))) for n, a in e[2]]
        if set(n for n, _ in args) != set(f.params) or len(args) != len(f.params):
            return None
        return ev(f.body, f.env + [dict(args)])
    if t in ("add", "sub", "mul", "div"):
        return rfeel.arith(t, ev(e[1], env), ev(e[2], env))
    if t == "neg":
        v = ev(e[1], env)
        return rfeel.CTX.minus(v) if rfeel.kind(v) == "number" else None
    if t == "if":
        c = ev(e[1], env)
        if c is True:
            return ev(e[2], env)
        if c is False or c is None:
            return ev(e[3], env)
        raise rfeel.Undecided("non-boolean condition")
    if t == "cmp":
        return rfeel.ev(("cmp", e[1], ("__v__",), ("__v__",)), env) if False else _cmp(e[1], ev(e[2], env), ev(e[3], env))
    if t == "list":
        return [ev(x, env) for x in e[1]]
    if t == "path":
        v = ev(e[1], env)
        if isinstance(v, dict):
            return v.get(e[2])
        if v is None:
            return None
        raise rfeel.Undecided("path on " + rfeel.kind(v))
    if t == "ctx":
        return eval_context(e[1], None, env)
    return rfeel.ev(e, env)


def _cmp(op, a, b):
    if op == "=":
        return rfeel.feq(a, b)
    if op == "!=":
        r = rfeel.feq(a, b)
        return None if r is None else (not r)
    lt = rfeel.flt
    if op == "<":
        return lt(a, b)
    if op == ">":
        return lt(b, a)
    if op == "<=":
        r = lt(b, a)
        return None if r is None else (not r)
    r = lt(a, b)
    return None if r is None else (not r)
