"""Reference model of the workspace (C17, reused by C18) — a sequential model of the property statement.

    "After any sequence of add, remove, replace, clear and deploy operations the workspace holds
     exactly the model definitions that the sequence leaves in it: a model can be added iff no stored
     model has its namespace or its name, removal and replacement leave no stale name or namespace
     reservation behind, and the lookups by name and by namespace always describe the same set as the
     stored list. Evaluation is possible exactly for the models that were present at the last deploy
     and built successfully, no modification having happened since, and a model that fails to build
     does not prevent the others from being deployed."

State: `stored` = list of models (namespace, name, content tag, builds?), `evaluators` = {name: tag}.

What the statement fixes and what it leaves open (the checker accepts every outcome in the open set):
  add(m)       fixed: succeeds iff no stored model has m.ns or m.name; then the list is the old list + m (the
               order of the list carries no meaning: lists are compared as multisets) and
               evaluators = {}; a rejected add changes nothing (it is not a modification).
  remove(ns,n) fixed: afterwards no stored model has BOTH keys; models sharing NEITHER key stay;
               nothing appears.  open: a stored model sharing exactly ONE of the two keys (cross pair) may
               stay or go.  Either way the indexes must describe the resulting list (I1) - "no stale
               reservation".  evaluators = {} if the list changed; {} or unchanged if it did not.
  replace(m)   fixed: if a stored model has both keys of m, or no stored model shares a key with m, replace
               succeeds and m (its content) is stored exactly once, others sharing neither key untouched.
               open: when only one-key sharers are stored, replace may fail leaving the list unchanged, or
               succeed evicting them.  evaluators = {} on success; {} or unchanged on failure.
  clear        list = [], evaluators = {}.
  deploy       succeeds, list unchanged, evaluators = {m.name: m for stored m that builds}.
  I1 (always)  keys(by_namespace) = {m.ns}, keys(by_name) = {m.name} over the list, no duplicates in the list.
  probes       evaluate_invocable(name, "D") returns the tag of the deployed content iff name in evaluators,
               else fails (not deployed).

The deterministic methods (`add`, `remove`, `replace`, `clear`, `deploy`) implement the fixed part with
the minimal choice in the open part (remove deletes only models having both keys; replace fails on a
one-key clash).  `check_step` is the relational checker used on observed executions.
"""

DMN_NS = "https://www.omg.org/spec/DMN/20191111/MODEL/"


class Model:
    __slots__ = ("id", "ns", "name", "tag", "builds", "xml")

    def __init__(self, id, ns, name, tag, builds, xml):
        self.id, self.ns, self.name, self.tag, self.builds, self.xml = id, ns, name, tag, builds, xml

    @property
    def key(self):
        return (self.ns, self.name)

    def __repr__(self):
        return "%s(%s,%s)" % (self.id, self.ns, self.name)


def xml_escape(s):
    return s.replace("&", "&amp;").replace("<", "&lt;").replace(">", "&gt;").replace('"', "&quot;")


def tiny_model_xml(ns, name, tag, broken=False, extra=""):
    """A model with one decision `D` returning the constant string `tag`. With `broken`, an input data
    without typeRef is added: the model parses but ModelEvaluator::new rejects it."""
    bad = '<inputData name="In" id="in_%s"><variable name="In"/></inputData>' % tag if broken else ""
    return (
        '<?xml version="1.0" encoding="UTF-8"?>'
        '<definitions xmlns="%s" namespace="%s" name="%s" id="defs_%s">'
        '<decision name="D" id="dec_%s"><variable name="D" typeRef="string"/>'
        '<literalExpression><text>"%s"</text></literalExpression></decision>%s%s</definitions>'
    ) % (DMN_NS, xml_escape(ns), xml_escape(name), tag, tag, tag, bad, extra)


def make(id, ns, name, builds=True):
    return Model(id, ns, name, id, builds, tiny_model_xml(ns, name, id, broken=not builds))


# base + the six relatives the property quantifies over
ALPHABET = [
    make("m0", "nsA", "A"),  # base
    make("m1", "nsA", "B"),  # same namespace, different name
    make("m2", "nsC", "A"),  # different namespace, same name
    make("m3", "nsA", "A"),  # identical twin of m0 (same keys, different content)
    # disjoint; its NAME is also the name of its decision, and it has a (typed) input data element and a knowledge model named like its namespace
    Model("m4", "nsD", "D", "m4", True, tiny_model_xml("nsD", "D", "m4", extra='<inputData name="In" id="in_m4"><variable name="In" typeRef="string"/></inputData>'
          '<businessKnowledgeModel name="nsD" id="bkm_m4"><variable name="nsD"/><encapsulatedLogic><formalParameter name="p" typeRef="number"/><literalExpression><text>p + 1</text></literalExpression></encapsulatedLogic></businessKnowledgeModel>')),
    make("m5", "A", "nsA"),  # namespace string = m0's NAME, name string = m0's NAMESPACE
    make("m6", "nsF", "F", builds=False),  # parses, fails to build; keys disjoint from all others
]

INVOCABLE = "D"


class WsModel:
    """Deterministic core. `stored`: list of Model; `evaluators`: dict name -> tag."""

    def __init__(self, stored=None, evaluators=None):
        self.stored = list(stored or [])
        self.evaluators = dict(evaluators or {})

    def copy(self):
        return WsModel(self.stored, self.evaluators)

    def clashes(self, m):
        return [s for s in self.stored if s.ns == m.ns or s.name == m.name]

    def add(self, m):
        if self.clashes(m):
            return False
        self.stored.append(m)
        self.evaluators = {}
        return True

    def remove(self, ns, name):
        self.stored = [s for s in self.stored if not (s.ns == ns and s.name == name)]
        self.evaluators = {}

    def replace(self, m):
        exact = [k for k, s in enumerate(self.stored) if s.key == m.key]
        if exact:
            self.stored[exact[0]] = m
        elif self.clashes(m):
            self.evaluators = {}
            return False
        else:
            self.stored.append(m)
        self.evaluators = {}
        return True

    def clear(self):
        self.stored = []
        self.evaluators = {}

    def deploy(self):
        self.evaluators = {s.name: s.tag for s in self.stored if s.builds}

    def key(self):
        return (tuple((s.ns, s.name, s.tag) for s in self.stored), tuple(sorted(self.evaluators.items())))


# ------------------------------------------------------------------------------------------------
# Relational checker over observed executions
# ------------------------------------------------------------------------------------------------


class Entry:
    """A stored entry as the checker knows it: keys from the observation, content tag when known."""

    __slots__ = ("ns", "name", "tag", "builds")

    def __init__(self, ns, name, tag, builds):
        self.ns, self.name, self.tag, self.builds = ns, name, tag, builds

    @property
    def key(self):
        return (self.ns, self.name)

    def t(self):
        return (self.ns, self.name, self.tag, self.builds)


class State:
    """Checker state: entries (list), evaluators {name: tag or None(unknown content)}, disc = index
    discrepancies already reported (so that a persisting drift is reported once, where it arises)."""

    __slots__ = ("entries", "evaluators", "disc")

    def __init__(self, entries=(), evaluators=None, disc=frozenset()):
        self.entries = list(entries)
        self.evaluators = dict(evaluators or {})
        self.disc = disc

    def key(self):
        return (tuple(e.t() for e in self.entries), tuple(sorted(self.evaluators.items(), key=lambda kv: kv[0])), tuple(sorted(self.disc)))


def op_kind(op, state):
    k = op[0]
    if k == "remove":
        both = [e for e in state.entries if e.ns == op[1] and e.name == op[2]]
        one = [e for e in state.entries if (e.ns == op[1]) != (e.name == op[2])]
        return "remove-exact" if both else ("remove-cross" if one else "remove-absent")
    return k


def discrepancies(defs, by_ns, by_name):
    """I1: set of (kind, key) items by which the indexes fail to describe the list."""
    out = set()
    nss = [d[0] for d in defs]
    names = [d[1] for d in defs]
    for x in set(nss):
        if nss.count(x) > 1:
            out.add(("dup-namespace", x))
    for x in set(names):
        if names.count(x) > 1:
            out.add(("dup-name", x))
    for x in set(by_ns) - set(nss):
        out.add(("stale-namespace", x))
    for x in set(nss) - set(by_ns):
        out.add(("missing-namespace", x))
    for x in set(by_name) - set(names):
        out.add(("stale-name", x))
    for x in set(names) - set(by_name):
        out.add(("missing-name", x))
    if len(by_ns) != len(set(by_ns)) or len(by_name) != len(set(by_name)):
        out.add(("dup-index-key", "?"))
    return frozenset(out)


def _subsequence(old_entries, defs):
    """Matches the observed key list against the old entries as a multiset (the statement speaks of the
    set of stored models, the order of the list carries no meaning). Returns (indices of old entries
    that are still there, observed positions that match no old entry)."""
    kept = []
    extra = []
    used = set()
    for pos, d in enumerate(defs):
        for j, e in enumerate(old_entries):
            if j not in used and e.key == tuple(d):
                used.add(j)
                kept.append(j)
                break
        else:
            extra.append(pos)
    return kept, extra


def parse_probe(p):
    """driver probe record -> ("ok", tag-text) | ("err", text)"""
    if "ok" in p:
        t = p["ok"]
        if len(t) >= 2 and t[0] == '"' and t[-1] == '"':
            t = t[1:-1]
        return ("ok", t)
    return ("err", p.get("err", ""))


def check_step(state, op, obs, alphabet, probe_names, content_probe=None):
    """Checks one observed step against the property statement.

    state: State before the step; op: driver-encoded operation; obs: {"r","s","p"} from the driver;
    content_probe: optional probe results observed after an ADDITIONAL deploy of the same workspace
    (BFS mode) - makes the content of the stored list visible.
    Returns (violations [(signature, message)], State after the step).
    """
    viols = []
    r = obs["r"]
    defs = [tuple(d) for d in obs["s"][0]]
    by_ns, by_name, evals = obs["s"][1], obs["s"][2], obs["s"][3]
    kind = op_kind(op, state)
    old = state.entries
    old_keys = [e.key for e in old]
    old_eval = state.evaluators
    new_entries = None
    # ---- what may the list look like, what must the result be
    eval_rule = "empty"  # "empty" | "unchanged" | "either" | "deployed"
    if op[0] == "add":
        m = alphabet[op[1]]
        clash_ns = any(e.ns == m.ns for e in old)
        clash_name = any(e.name == m.name for e in old)
        if not (clash_ns or clash_name):
            if r is not None:
                which = "namespace" if "namespace" in r else ("name" if "name" in r else "other")
                viols.append(("I2:add-rejected-without-clash:%s" % which, "add %r was rejected (%s) although no stored model of %s shares its namespace or name" % (m, r, old_keys)))
        else:
            if r is None:
                viols.append(("I2:add-accepted-despite-clash:%s" % ("+".join(x for x, c in (("namespace", clash_ns), ("name", clash_name)) if c)), "add %r succeeded although stored %s shares a key" % (m, old_keys)))
        if r is None:
            if sorted(defs) != sorted(old_keys + [m.key]):
                viols.append(("I2:add-ok:list-is-not-old-plus-model", "after successful add %r the list is %s, expected %s" % (m, defs, old_keys + [m.key])))
            eval_rule = "empty"
        else:
            if sorted(defs) != sorted(old_keys):
                viols.append(("I2:add-rejected:list-changed", "rejected add %r changed the list from %s to %s" % (m, old_keys, defs)))
            eval_rule = "unchanged"
        kept, extra = _subsequence(old, defs)
        new_entries = _rebuild(old, defs, kept, {m.key: m} if r is None else {})
    elif op[0] == "remove":
        ns, name = op[1], op[2]
        kept, extra = _subsequence(old, defs)
        if extra:
            viols.append(("I3:%s:list-gained-a-model" % kind, "remove(%s,%s) turned list %s into %s" % (ns, name, old_keys, defs)))
        if r is not None:
            viols.append(("I3:%s:returned-error" % kind, "remove returned %s" % r))
        for j, e in enumerate(old):
            has_ns, has_name = e.ns == ns, e.name == name
            if has_ns and has_name and j in kept:
                viols.append(("I3:%s:model-with-both-keys-survives" % kind, "after remove(%s,%s) the list %s still holds it" % (ns, name, defs)))
            if not has_ns and not has_name and j not in kept:
                viols.append(("I3:%s:model-sharing-no-key-removed" % kind, "remove(%s,%s) removed %s from %s" % (ns, name, e.key, old_keys)))
        new_entries = _rebuild(old, defs, kept, {})
        eval_rule = "empty" if sorted(defs) != sorted(old_keys) else "either"
    elif op[0] == "replace":
        m = alphabet[op[1]]
        exact = [e for e in old if e.key == m.key]
        one = [e for e in old if (e.ns == m.ns) != (e.name == m.name)]
        if r is None:
            if defs.count(m.key) != 1:
                viols.append(("I3:replace-ok:model-not-stored-exactly-once", "after successful replace %r the list is %s" % (m, defs)))
            rest_old = [e for e in old if e.key != m.key]
            rest_new = [d for d in defs if d != m.key]
            kept, extra = _subsequence(rest_old, rest_new)
            if extra:
                viols.append(("I3:replace-ok:list-gained-a-model", "replace %r turned list %s into %s" % (m, old_keys, defs)))
            for j, e in enumerate(rest_old):
                if e.ns != m.ns and e.name != m.name and j not in kept:
                    viols.append(("I3:replace-ok:model-sharing-no-key-removed", "replace %r removed %s from %s" % (m, e.key, old_keys)))
            known = {e.key: e for e in rest_old}
            new_entries = []
            done = False
            for d in defs:
                if d == m.key and not done:
                    new_entries.append(Entry(m.ns, m.name, m.tag, m.builds))
                    done = True
                elif d in known:
                    k = known[d]
                    new_entries.append(Entry(k.ns, k.name, k.tag, k.builds))
                else:
                    new_entries.append(Entry(d[0], d[1], None, None))
            eval_rule = "empty"
        else:
            if exact:
                viols.append(("I3:replace-rejected:model-with-both-keys-stored", "replace %r failed (%s) although %s is stored" % (m, r, m.key)))
            elif not one:
                viols.append(("I3:replace-rejected:no-clash", "replace %r failed (%s) although nothing stored shares a key: %s" % (m, r, old_keys)))
            if sorted(defs) != sorted(old_keys):
                viols.append(("I3:replace-rejected:list-changed", "failed replace %r changed the list from %s to %s" % (m, old_keys, defs)))
            kept, extra = _subsequence(old, defs)
            new_entries = _rebuild(old, defs, kept, {})
            eval_rule = "either"
    elif op[0] == "clear":
        if r is not None:
            viols.append(("I3:clear:returned-error", "clear returned %s" % r))
        if defs:
            viols.append(("I3:clear:list-not-empty", "after clear the list is %s" % defs))
        kept, extra = _subsequence(old, defs)
        new_entries = _rebuild(old, defs, kept, {})
        eval_rule = "empty"
    elif op[0] == "deploy":
        if r is not None:
            viols.append(("I4:deploy:returned-error", "deploy failed: %s" % r))
        if sorted(defs) != sorted(old_keys):
            viols.append(("I4:deploy:list-changed", "deploy changed the list from %s to %s" % (old_keys, defs)))
        kept, extra = _subsequence(old, defs)
        new_entries = _rebuild(old, defs, kept, {})
        eval_rule = "deployed"
    else:
        raise ValueError("unknown op %r" % (op,))
    # ---- I1: indexes describe the list; report only what arises at this step
    disc = discrepancies(defs, by_ns, by_name)
    fresh = disc - state.disc
    if fresh:
        kinds = "+".join(sorted(set(k for k, _ in fresh)))
        viols.append(("I1:%s:%s" % (kind, kinds), "after %s the list is %s but by_namespace=%s by_name=%s: %s" % (_show_op(op, alphabet), defs, by_ns, by_name, sorted(fresh))))
    # ---- I4: evaluators
    if eval_rule == "deployed":
        want = {}
        blocked = any(e.builds is False for e in new_entries)
        for e in new_entries:
            if e.builds is None:
                want = None  # content unknown after an earlier violation: undecided
                break
            if e.builds:
                want[e.name] = e.tag
        if want is not None:
            missing = sorted(set(want) - set(evals))
            surplus = sorted(set(evals) - set(want))
            if missing:
                viols.append(("I4:deploy:buildable-model-not-deployed" + (":with-unbuildable-stored" if blocked else ""), "after deploy of %s evaluators are %s, missing %s" % (defs, evals, missing)))
            if surplus:
                viols.append(("I4:deploy:evaluator-for-unbuildable-or-absent-model", "after deploy of %s evaluators are %s, unexpected %s" % (defs, evals, surplus)))
            new_eval = {n: want.get(n) for n in evals}
        else:
            new_eval = {n: None for n in evals}
    elif eval_rule == "empty":
        if evals:
            viols.append(("I4:%s:evaluators-survive-modification" % kind, "after %s evaluators are still %s" % (_show_op(op, alphabet), evals)))
        new_eval = {n: old_eval.get(n) for n in evals}
    elif eval_rule == "unchanged":
        if sorted(evals) != sorted(old_eval):
            viols.append(("I4:%s-rejected:evaluators-changed" % kind, "rejected %s changed evaluators from %s to %s" % (_show_op(op, alphabet), sorted(old_eval), evals)))
        new_eval = {n: old_eval.get(n) for n in evals}
    else:  # either
        if evals and sorted(evals) != sorted(old_eval):
            viols.append(("I4:%s:evaluators-neither-empty-nor-unchanged" % kind, "after %s evaluators went from %s to %s" % (_show_op(op, alphabet), sorted(old_eval), evals)))
        new_eval = {n: old_eval.get(n) for n in evals}
    # ---- behavioural probes must agree with the evaluators
    if "p" in obs:
        for (pname, _inv), p in zip(probe_names, obs["p"]):
            st, text = parse_probe(p)
            if pname in new_eval:
                if st != "ok":
                    viols.append(("I4:probe:%s:deployed-model-not-evaluable" % kind, "after %s model %s is deployed (evaluators %s) but evaluate fails: %s" % (_show_op(op, alphabet), pname, evals, text)))
                elif new_eval[pname] is not None and text != new_eval[pname]:
                    viols.append(("I4:probe:%s:deployed-content-is-not-the-stored-model" % kind, "after %s evaluating %s gives %s, the stored model is %s" % (_show_op(op, alphabet), pname, text, new_eval[pname])))
            else:
                if st == "ok":
                    viols.append(("I4:probe:%s:evaluable-although-not-deployed" % kind, "after %s evaluate(%s) answers %s but evaluators are %s" % (_show_op(op, alphabet), pname, text, evals)))
    # ---- content of the list (visible only through an additional deploy)
    if content_probe is not None:
        seen = {}
        for (pname, _inv), p in zip(probe_names, content_probe):
            st, text = parse_probe(p)
            if st == "ok":
                seen[pname] = text
        for e in new_entries:
            if e.tag is None:
                continue
            if e.builds and seen.get(e.name) != e.tag:
                viols.append(("I3:%s:stored-content-differs" % kind, "after %s the stored model named %s evaluates to %s, expected content %s" % (_show_op(op, alphabet), e.name, seen.get(e.name), e.tag)))
            if not e.builds and e.name in seen:
                viols.append(("I3:%s:stored-content-differs" % kind, "after %s the unbuildable model %s evaluates to %s" % (_show_op(op, alphabet), e.name, seen.get(e.name))))
    return viols, State(new_entries, new_eval, disc)


def _rebuild(old, defs, kept, added):
    """Entries for the observed key list: content carried over from the matched old entries, from
    `added` for newly stored models, unknown otherwise."""
    out = []
    used = set()
    for d in defs:
        for j, e in enumerate(old):
            if j not in used and e.key == tuple(d):
                used.add(j)
                out.append(Entry(e.ns, e.name, e.tag, e.builds))
                break
        else:
            if tuple(d) in added:
                m = added[tuple(d)]
                out.append(Entry(m.ns, m.name, m.tag, m.builds))
            else:
                out.append(Entry(d[0], d[1], None, None))
    return out


def _show_op(op, alphabet):
    if op[0] in ("add", "replace"):
        return "%s %r" % (op[0], alphabet[op[1]])
    if op[0] == "remove":
        return "remove(%s,%s)" % (op[1], op[2])
    return op[0]


def show_history(ops, alphabet):
    return "; ".join(_show_op(o, alphabet) for o in ops)
